#!/bin/bash
# usage: confirm_seed.sh <worktree> <X>   (X = A or B)
# Confirms independently, inside the scratch worktree: the patch applies, the demo fails with it and
# passes without it, and the pinned test suite still passes with it. Writes <worktree>/confirm<X>.json
wt=$1; X=$2
cd "$wt" || exit 2
export PYTHONPATH=$wt NUMBA_CACHE_DIR=$wt/.numba PYTHONHASHSEED=0
git checkout -q -- . 
/venv/bin/python demo$X.py > confirm$X.demo_clean.log 2>&1; clean=$?
git apply mut$X.diff || { echo "{\"applies\": false}" > confirm$X.json; exit 1; }
/venv/bin/python demo$X.py > confirm$X.demo_mut.log 2>&1; mut=$?
nice -n 15 /venv/bin/python -m pytest -ra -q -p no:cacheprovider --timeout=900 --continue-on-collection-errors --junitxml=$wt/confirm$X.junit.xml > confirm$X.tests.log 2>&1
files=$(git diff --name-only | tr '\n' ' ')
nice -n 15 /venv/bin/python -m pytest -q -p no:cacheprovider --doctest-modules $files > confirm$X.doctest.log 2>&1; doct=$?
git checkout -q -- .
rm -rf $wt/.numba
/venv/bin/python - <<PY
import json, xml.etree.ElementTree as ET
t = ET.parse("$wt/confirm$X.junit.xml").getroot()
failed = []
n = 0
for tc in t.iter("testcase"):
    n += 1
    if any(ch.tag in ("failure", "error") for ch in tc):
        failed.append(tc.get("classname") + "::" + tc.get("name"))
base = json.load(open("/root/.vp/BASELINE.json"))
stable = set(base["stable_pass"])
bad = [f for f in failed if f in stable]
json.dump({"applies": True, "demo_exit_clean": $clean, "demo_exit_mutant": $mut, "tests_total": n,
           "failed": failed, "failed_among_baseline_stable": bad, "doctest_exit": $doct,
           "files": "$files".split()}, open("$wt/confirm$X.json", "w"), indent=1)
PY
rm -f $wt/confirm$X.junit.xml
cat $wt/confirm$X.json
