#!/bin/bash
# usage: try_seed_wt.sh <worktree> <patch.diff> <PROP> [tier]
# Apply a seeded change inside a scratch worktree and run the check against THAT checkout (VERIF_REPO), writing
# evidence/replays to a scratch directory, so that /repo and /verif/evidence stay untouched.
wt=$1; patch=$2; prop=$3; tier=${4:-quick}
cd "$wt" || exit 3
git checkout -q -- . && git apply "$patch" || exit 3
out=/verif/.work/mut_out_$$; mkdir -p $out
( cd /verif && VERIF_REPO=$wt VERIF_OUT=$out ./check $prop --tier $tier > $out/log.txt 2>&1; echo "rc=$?" )
grep -E "^VIOLATION|^KNOWN|MACHINERY|tier=" $out/log.txt | cut -c1-220 | head -8
git checkout -q -- .
rm -rf $out
