#!/venv/bin/python
"""run_all_seeds.py [--jobs N] [--tier quick] [ID ...]

Mutation regression: every seeded change kept under /verif/seeded/<ID>/ is applied, one at a time, to a scratch
worktree of /repo's HEAD (never to /repo itself), the property's check is run against that worktree
(VERIF_REPO / VERIF_OUT, see tools/try_seed_wt.sh), and the exit code and the violated clauses are recorded

  * in /verif/seeded/<ID>/meta.json   (key "detected_by"), and
  * in /verif/seeded/RESULTS.json     (one line per seed; the table of DESIGN.md 9.5/9.7 is derived from it).

The scratch worktrees live under /tmp/wt/reg<k> and are removed at the end.  Exit 0 iff every seed is detected
(rc = 1 with at least one VIOLATION line).
"""
import json
import os
import re
import subprocess
import sys
import time
from concurrent.futures import ThreadPoolExecutor
from pathlib import Path
from queue import Queue

SEEDED = Path("/verif/seeded")


def main() -> int:
    args = sys.argv[1:]
    jobs, tier = 3, "quick"
    ids = []
    while args:
        a = args.pop(0)
        if a == "--jobs":
            jobs = int(args.pop(0))
        elif a == "--tier":
            tier = args.pop(0)
        else:
            ids.append(a)
    seeds = sorted(p.name for p in SEEDED.iterdir() if (p / "patch.diff").exists() and (not ids or p.name in ids))
    pool: Queue = Queue()
    wts = []
    for k in range(jobs):
        wt = f"/tmp/wt/reg{k}"
        subprocess.run(["git", "-C", "/repo", "worktree", "remove", "--force", wt], capture_output=True)
        subprocess.run(["git", "-C", "/repo", "worktree", "add", "-q", "--detach", wt, "HEAD"], check=True)
        wts.append(wt)
        pool.put(wt)
    results = {}

    # a stored change is tried against its own property's check; where DESIGN.md 9.7 names another check as the one
    # that decides it, that check is tried as well
    also = {"C12E": ["C17"], "C12G": ["C07"], "C12H": ["C02"]}

    def one(seed: str):
        res = None
        for prop in [seed[:3]] + also.get(seed, []):
            s2, res = one_prop(seed, prop)
            if res.get("rc") == 1 and res.get("clauses"):
                res["check"] = prop
                return s2, res
        return seed, res

    def one_prop(seed: str, prop: str):
        wt = pool.get()
        try:
            patch = SEEDED / seed / "patch.diff"
            subprocess.run(["git", "-C", wt, "checkout", "-q", "--", "."], check=True)
            ap = subprocess.run(["git", "-C", wt, "apply", str(patch)], capture_output=True, text=True)
            if ap.returncode != 0:
                return seed, {"applies": False, "error": ap.stderr[:200]}
            out = Path(f"/verif/.work/reg_out_{seed}")
            out.mkdir(parents=True, exist_ok=True)
            t0 = time.time()
            env = dict(os.environ, VERIF_REPO=wt, VERIF_OUT=str(out))
            try:
                r = subprocess.run(["./check", prop, "--tier", tier], cwd="/verif", env=env, capture_output=True,
                                   text=True, timeout=3600)
                rc, txt = r.returncode, r.stdout + r.stderr
            except subprocess.TimeoutExpired:
                rc, txt = 124, ""
            clauses = {}
            for m in re.finditer(r"^VIOLATION property=\S+ replay=\S+ clause=(\S+)", txt, re.M):
                clauses[m.group(1)] = clauses.get(m.group(1), 0) + 1
            hist = re.search(r"violated clauses: (.*)", txt)
            subprocess.run(["git", "-C", wt, "checkout", "-q", "--", "."], check=True)
            subprocess.run(["rm", "-rf", str(out)])
            return seed, {"applies": True, "rc": rc, "clauses": sorted(clauses), "histogram": hist.group(1)[:300] if hist else None,
                          "wall_s": round(time.time() - t0, 1),
                          "machinery": [ln[:200] for ln in txt.splitlines() if ln.startswith("MACHINERY")][:2]}
        finally:
            pool.put(wt)

    with ThreadPoolExecutor(jobs) as ex:
        for seed, res in ex.map(one, seeds):
            results[seed] = res
            print(seed, json.dumps(res), flush=True)
            mp = SEEDED / seed / "meta.json"
            try:
                meta = json.loads(mp.read_text())
            except Exception:
                meta = {}
            if res.get("applies") and res.get("rc") == 1 and res.get("clauses"):
                meta["detected_by"] = [f"./check {res.get('check', seed[:3])} --tier {tier}: " + ", ".join(res["clauses"])]
            else:
                meta["detected_by"] = []
                meta["not_detected"] = res
            mp.write_text(json.dumps(meta, indent=1) + "\n")
    for wt in wts:
        subprocess.run(["git", "-C", "/repo", "worktree", "remove", "--force", wt], capture_output=True)
    prev = {}
    rp = SEEDED / "RESULTS.json"
    if rp.exists() and ids:
        prev = json.loads(rp.read_text()).get("seeds", {})
    prev.update(results)
    head = subprocess.run(["git", "-C", "/repo", "rev-parse", "--short", "HEAD"], capture_output=True, text=True).stdout.strip()
    rp.write_text(json.dumps({"repo_head": head, "tier": tier, "seeds": prev}, indent=1) + "\n")
    missed = [s for s, r in results.items() if not (r.get("rc") == 1 and r.get("clauses"))]
    print(f"{len(results) - len(missed)} of {len(results)} seeded changes detected; missed: {missed}")
    return 1 if missed else 0


if __name__ == "__main__":
    sys.exit(main())
