#!/usr/bin/env python3
"""Print the prompt given to an independent mutation-seeding sub-agent for one property.
Only the property text goes in; nothing from /verif's machinery."""
import json, sys
pid = sys.argv[1]
wt = f"/tmp/wt/{pid}"
for l in open('/verif/properties.jsonl'):
    p = json.loads(l)
    if p['id'] == pid:
        break
else:
    raise SystemExit("no such property")
print(f"""You are helping to evaluate a verification framework by seeding realistic bugs into a Python library.

Work ONLY inside the git worktree {wt} (a checkout of the open-source library thomasWeise/moptipyapps: metaheuristic optimization applications built on moptipy/numpy/numba). Do NOT read, list or touch /verif or /repo, and do not use the network (there is none). Always run Python like this, so that the worktree's code (not another copy) is imported:

    cd {wt} && PYTHONPATH={wt} NUMBA_CACHE_DIR={wt}/.numba PYTHONHASHSEED=0 /venv/bin/python ...

(check once that `import moptipyapps; print(moptipyapps.__file__)` points into {wt}).

PROPERTY that the library is supposed to satisfy ({p['id']}: {p['title']}):

{p['statement']}

Quantification: {p['quantifier']['text']}

Files where the relevant mechanisms live: {', '.join(p['anchors']['files'])}

YOUR TASK: produce TWO independent, small, realistic source changes (call them A and B) under {wt}/moptipyapps/ — the kind of slip a maintainer could make in a refactoring or optimisation: off-by-one, wrong comparison operator, stale state / missing reset, wrong index or swapped arguments, narrower dtype, wrong bound, skipped special case, a formula term dropped ... — such that each change on its own
  1. BREAKS the property above (any one clause of it is enough),
  2. still imports/compiles (numba kernels included), and
  3. still passes the existing tests: run the relevant test directory, e.g. `/venv/bin/python -m pytest -q -p no:cacheprovider --timeout=900 tests/<subdir>` (these can take several minutes), plus the doctests of every module you changed: `/venv/bin/python -m pytest -q -p no:cacheprovider --doctest-modules moptipyapps/<changed file>`. Do not edit tests or doctests.
Prefer changes that need something SPECIFIC to manifest — an unusual or boundary input, a particular multi-step sequence of operations on one object, a specific configuration, or two cooperating sites that each look fine alone — not ones that ordinary use would expose at once. A and B should be of different kinds / at different sites (different clauses of the property if possible).

Deliverables (all in {wt}; at the end the working tree must be clean, i.e. `git status --short` shows only the new untracked deliverable files):
  - {wt}/mutA.diff and {wt}/mutB.diff : output of `git diff` for each change alone (each must apply with `git apply` to the clean tree).
  - {wt}/demoA.py and {wt}/demoB.py : standalone scripts (run with the command line above) that exit 0 if the property holds on the inputs they try and exit 1 (printing what went wrong) if not. Each must FAIL (exit 1) with its change applied and PASS (exit 0) on the clean tree — verify both. A demo must judge by an independent criterion that follows from the property text (recompute the expected result yourself in plain Python), not by calling the library's own validators.
  - {wt}/meta.json : {{"property": "{p['id']}", "A": {{"files_changed": [...], "what_it_needs_to_manifest": "...", "tests_run": ["cmd -> outcome", ...], "demo_cmd": "..."}}, "B": {{...}}}}

In your final message report, for A and B: the diff, what it needs in order to manifest, and which tests you ran with their outcome. Be honest if a test fails or if you could not find a second change.""")
