#!/venv/bin/python
"""Regenerate /verif/MANIFEST.json from the per-property table below (single source)."""
import json
from pathlib import Path

ROOT = Path(__file__).resolve().parent.parent
BASE = json.loads(Path("/root/.vp/BASELINE.json").read_text())

CHECKS = {
    "C01": dict(
        category="model_checking", design_ref="DESIGN.md section 2 (C01)",
        technique="TLA+ small-step model of both decoders checked by TLC; every TLC-generated input of the "
                  "scope replayed into the real decoders; recorded real decoder histories validated by TLC "
                  "against a feasibility predicate written from the statement",
        text="spec/binpack/IBL.tla is the two decoders as a step machine (lift/down/left/commit/next bin/open bin); "
             "TLC proves for every instance/signed permutation/encoding of the small scope that each reachable "
             "state is a feasible partial packing, that the machine terminates in Decode(..) and that no stored "
             "value exceeds the storage rule. Conformance: all inputs of the TLC scope are replayed into the real "
             "decoders and ~6000 recorded real decodes (random, dense, degenerate, int8/int16/int32 storage-edge, "
             "shipped) are judged by TLC with FeasibleClause (inside, overlap, dims, multiplicity, bins 1..k, n_bins).",
        note="Bounded: exhaustive only in the TLC scope (bins <= 3x3 (4x4 thorough), <= 4 items); beyond it seeded "
             "sampling. Bin sides above 2^31-1 are not representable in TLC and are not explored. Trusted: TLC, "
             "the JSON projection of numpy rows."),
    "C14": dict(
        category="model_checking", design_ref="DESIGN.md section 2 (C14)",
        technique="documented bottom-left rule transcribed to TLA+ (Drop fixpoint, next-fit / first-fit); TLC-computed "
                  "packings compared with the real decoders' output for every input of the scope; recorded histories "
                  "on one reused encoder/destination re-derived by TLC from the permutation alone",
        text="The documented procedure is the TLA+ function Decode (BinPack.tla); TLC shows the step machine ends in "
             "exactly that packing. Spec->code: the packing TLC computes for every input of the scope equals the real "
             "one row by row. Code->spec: histories of decodes with ONE encoder object and ONE (dirtied) destination "
             "are re-derived by TLC call by call, so any dependence on earlier calls or stale destination contents, and "
             "any deviation from the rule (tie handling, rotation, bin choice) is named by clause.",
        note="Equality with the documented rule is demanded (the property says 'exactly'). Bounded as C01."),
}

CHECKS["C02"] = dict(
    category="model_checking", design_ref="DESIGN.md section 2 (C02)",
    technique="objective definitions in TLA+ (BigNat arithmetic, column-wise skyline integral); TLC enumerates every "
              "feasible packing of tiny instances and checks tie range, documented bounds, conversion; all of them are "
              "replayed into the 7 real objectives; recorded evaluation histories validated by TLC",
    text="PackGen.tla generates every feasible packing (any position, any row order, sparse bins) of every instance of "
         "the scope; TLC checks 1 <= tie <= scale, documented lower/upper bound formulas and ceil-conversion on all of "
         "them; the real objectives must return exactly TLC's values on all of them (and dominance over all pairs). "
         "Histories on reused objective objects over decoder outputs, arbitrary feasible layouts, storage-edge and "
         "huge-area instances (values above 2^53) are judged by Trace_Obj: value, declared bounds, to_bin_count, "
         "pairwise dominance.",
    note="Exhaustive only for bins <= 2x2 (3x3 thorough) and <= 3 items; coordinates must stay below 2^31 (values are "
         "BigNat). Declared bounds are taken from the code and only required to enclose the value and to convert back.")
CHECKS["C04"] = dict(
    category="model_checking", design_ref="DESIGN.md section 2 (C04)",
    technique="feasibility predicate in TLA+ as the specification of validate; TLC enumerates decoder outputs x all "
              "single-cell/bin-count corruptions; each state is fed to the real validator and to from_str(to_str()); "
              "TLC decides accept/reject",
    text="Validate.tla: every decoder output of the scope with every single corruption (any cell := any value of a "
         "signed domain, stored bin count := any value) is a TLC state; Trace_Validate computes FeasibleClause for each "
         "and demands accepted <=> feasible and, for the text round trip, parsed = original and accepted <=> feasible. "
         "Seeded semantic corruptions (shift, resize, one-side-only match, id swap, bin gaps, wrong count/dtype/shape) "
         "of larger real packings incl. bin sides above 10^9.",
    note="Two genuine defects were found by this check and repaired (fix: commits 3a68536, 22a5ec5; see "
         "KNOWN_FINDINGS.json). Bounded: exhaustive single corruptions only in the small scope.")

CHECKS["C03"] = dict(
    category="model_checking", design_ref="DESIGN.md section 2 (C03)",
    technique="exact optimum of every small instance by TLC reachability over all placements (PackSearch.tla); real "
              "lower bounds checked by TLC against optimal witness packings; guillotine-constructed instances with "
              "witness dissections",
    text="PackSearch.tla places items at every position/orientation; the least bin count over its terminal states is the "
         "optimum with rotation of each instance of the scope. Trace_LB demands for the three observables "
         "(Instance.lower_bound_bins, BinCount.lower_bound, InstanceSpace.min_bins): ceil(area/bin area) <= lb <= "
         "bins(witness) after establishing that the witness is feasible. Witnesses: TLC's optimal packings (exact), "
         "random guillotine dissections of k bins with trims/drops/rotated declarations (optimum <= k by construction), "
         "decoder outputs and arbitrary layouts.",
    note="Only the property's inequalities are demanded (a different valid bound never alarms). Exact optimum only in "
         "the scope (bins <= 3x3, <= 3 (4 thorough) items); beyond that upper bounds on the optimum by construction.")

CHECKS["C07"] = dict(
    category="model_checking", design_ref="DESIGN.md section 2 (C07)",
    technique="round-robin feasibility oracle and documented error count in TLA+; TLC enumerates all 2-team plans x all "
              "constraint settings and all day-consistent 4-team plans; the real counter's zero set must equal TLC's "
              "feasible set; recorded evaluations validated clause by clause",
    text="TTP.tla defines feasibility from the statement (everyone plays, mutual consistency, pair multiplicity and "
         "balance, every maximal streak within limits incl. the last, separation of consecutive meetings) and the "
         "documented per-rule count; MC_RR.tla checks oracle <=> count = 0 on all consistent plans of the scopes. "
         "Every 2-team plan under every admissible setting and every day-wise consistent 4-team plan (12 per day; "
         "single round robin quick, double thorough) is evaluated by the real Errors objective; Trace_TTP demands "
         "zero <=> feasible, count = documented count where the documentation is unambiguous, 0 <= count <= declared "
         "bound. Random plans n=4..12, random settings, seasons longer than 127 days.",
    note="Three genuine defects found and fixed (final too-short streak; out-of-bounds pair index on self-play; "
         "declared upper bound exceeded by inconsistent plans and by minimum limits above 1 - first recorded as a "
         "known finding, then repaired). Exhaustive only for 2 and 4 teams; larger n by random, circle-method, "
         "error-minimising and error-maximising local-search families.")

CHECKS["C08"] = dict(
    category="model_checking", design_ref="DESIGN.md section 2 (C08)",
    technique="travel model in TLA+ (per-team walk, bye penalty); TLC checks bounds and the bye clause of the model on "
              "all small plans/matrices and computes the complete feasible set of the 4-team double round robin; real "
              "lengths, bye replacements and the optimum over that set validated by TLC",
    text="MC_Len.tla: for all small matrices (all for n<=3, circulant for n=4) and all plans with byes the model stays in "
         "[0, n*days*P] and every game->bye replacement strictly increases it. Trace_TTP recomputes every recorded "
         "GamePlanLength value and every recorded bye replacement (up to 40 positions per plan) for random symmetric/"
         "asymmetric matrices, n<=12. Thorough: TLC's complete feasible set (1 920 plans) is evaluated on the seven "
         "shipped 4-team instances and its minimum must equal the published optimum (quick: via the renaming closure).",
    note="The optimum clause runs in both tiers: quick uses the renaming closure of TLC's feasible set with the first day "
         "fixed (an argument TLC checks itself on the single round robin), thorough the complete set (3.26M TLC states). "
         "Distances below 2^31 / n / days.")
CHECKS["C15"] = dict(
    category="model_checking", design_ref="DESIGN.md section 2 (C15)",
    technique="decoder step machine in TLA+ over all code sequences (consistency, multiplicity, monotone placement, "
              "drop only if no free day) replayed into map_games; real blueprints and random permutations validated "
              "by TLC",
    text="MC_Games.tla places games one by one on the earliest free day; TLC checks the invariants after every step "
         "for ALL sequences of L codes and equality with the functional form; every terminal state is decoded by the "
         "real map_games into a dirty array and compared. The real search spaces for n=2..16, rounds=1..6 are checked "
         "against BlueprintClause (pair multiplicity = rounds, pair and team home/away balance, sortedness), random "
         "permutations (even and odd n, tight day budgets) are re-derived by TLC.",
    note="Exhaustive for n<=4 (5 thorough) and short sequences only.")

CHECKS["C05"] = dict(
    category="model_checking", design_ref="DESIGN.md section 2 (C05)",
    technique="tour length and nearest/farthest-neighbour bounds defined in TLA+ (native and BigNat); TLC checks the "
              "bounds enclose every tour for all small matrices; all of them replayed; recorded evaluations with "
              "storage-edge entries validated in BigNat arithmetic",
    text="MC_Tour.tla: for all matrices of the scope and all tours NearSum <= Len <= FarSum and BigNat = native. Every "
         "matrix/tour of the scope and seeded random symmetric/asymmetric matrices (n<=12, entries at 127/128, "
         "32767/32768, 2^31, 2^32, up to 10^12, several input dtypes) go through Instance/TourLength; Trace_TSP demands: "
         "stored matrix = given matrix, evaluate = cyclic edge sum, declared lower <= true length <= declared upper, "
         "symmetry flag <=> symmetric.",
    note="Exhaustive for n=3 over 0..2 (n=4 over 0..1 thorough); larger only sampled.")
CHECKS["C06"] = dict(
    category="model_checking", design_ref="DESIGN.md section 2 (C06)",
    technique="EA/FEA reversal machine in TLA+ (exact length, permutation, O(1) delta = true delta, EA monotone, "
              "table index in range) model-checked; kernels replayed on the whole scope; real solve() loops traced "
              "through a stub process and validated by TLC, with numba bounds checking on",
    text="RevMove.tla explores all symmetric matrices/start tours/move sequences of the scope. The two compiled kernels "
         "are called on every (matrix, tour, i, j) of the scope with an over-long frequency table whose changed cells are "
         "observed; the real solve() loops run on random, constant (every tour = upper bound), clustered and shipped "
         "instances; Trace_TSP checks every registered pair: permutation, y = exact length, EA never longer, table "
         "indices within 0..FarSum. IndexError under NUMBA_BOUNDSCHECK=1 is a violation.",
    note="Symmetric instances only (as the property). n<=5 exhaustive, else sampled seeds/budgets.")

CHECKS["C18"] = dict(
    category="model_checking", design_ref="DESIGN.md section 2 (C18)",
    technique="TSPLIB explicit formats as token streams and their inverse, EUC_2D/CEIL_2D/ATT as exact integer "
              "predicates in TLA+; TLC checks mutual consistency; the real loader/writer run on all small matrices x "
              "formats x wrappings, random cases and shipped tours, judged by TLC",
    text="Tsplib.tla defines TokensOf/MatrixFrom for FULL_MATRIX, UPPER_ROW, LOWER_DIAG_ROW, UPPER_DIAG_ROW and the three "
         "distance predicates; MC_Tsplib checks tokens->matrix inverts matrix->tokens and each predicate fixes exactly "
         "one distance. The real _from_stream loads every scope matrix in every format with every (sampled beyond 64) "
         "wrapping; random wrappings with blank lines; to_stream->_from_stream (name, size, symmetry flag, matrix, and "
         "the written tokens are in the declared format); integer and quarter-valued points incl. rounding-boundary "
         "pairs; all shipped optimal tours are permutations whose loaded edge weights sum to the documented optimum.",
    note="GEO only through the shipped GEO instances' tours (no transcendental functions in TLA+). Weights < 2^31.")

CHECKS["C09"] = dict(
    category="model_checking", design_ref="DESIGN.md section 2 (C09)",
    technique="QAP objective, rearrangement bounds and the QAPLIB token stream in TLA+ (BigNat); TLC checks bounds "
              "enclose every value for all small matrix pairs; scope replayed; recorded evaluations at storage edges "
              "and all/random line wrappings validated by TLC",
    text="MC_QAP.tla: for all matrix pairs of the scope and all permutations TrivialLower <= value <= TrivialUpper, "
         "BigNat = native, tokens invert. The scope and seeded matrix pairs whose upper bound sits at 127/128 ... 2^32 ... "
         "just below 10^15 (narrow input dtypes included) are evaluated by the real Instance/QAPObjective; Trace_QAP "
         "demands stored = given, value = flow-distance sum, declared lower <= value <= declared upper. QAPLIB texts "
         "for n<=2 in all wrappings and random wrappings with blank lines must load to (n, flows, distances).",
    note="One genuine defect found and fixed (loader rejected wrappings, fix c56108a). Exhaustive for 2x2 (3x3 over 0..1 "
         "thorough).")

CHECKS["C20"] = dict(
    category="model_checking", design_ref="DESIGN.md section 2 (C20)",
    technique="transposition graph explored by TLC (graph distance = minimum number of swaps, tied to n - cycles); "
              "zero-distance classes, representative indices and rank-flow clauses in TLA+; real instances and swap "
              "distances validated against them",
    text="MC_Swap.tla explores the transposition graph with an explicit swap counter; the least counter per pair is "
         "the minimum number of transpositions and TLC checks it is never below n - cycles; every pair of the scope is "
         "compared with the real swap_distance. Order1D.tla defines classes/representatives (first object at distance 0), "
         "|i-j| distances and the statement's flow clauses (zero on diagonal and beyond the horizon by average rank, "
         "equal for equal distances, monotone); Trace_Order judges real instances built from sequences with duplicates "
         "and ties, float distances, several powers/horizons, and random permutation pairs up to length 30.",
    note="Flow VALUES are not demanded (the statement is relational). Distances must be pseudo-metrics. Swap distance "
         "exhaustive for n<=5 (6 thorough) plus identity-rooted n=7.")

CHECKS["C13"] = dict(
    category="model_checking", design_ref="DESIGN.md section 2 (C13)",
    technique="index arithmetic of the kernels modelled in TLA+ (pair table, stored values, frequency-table index) and "
              "checked by TLC; the real kernels executed under numba bounds checking on the extreme inputs of the "
              "statement, IndexError = violation",
    text="PairIndex.tla proves the pair-table index stays in range and never aliases for every cell value incl. "
         "self-play (and shows the violation without the guard); IBL.tla StoreOK and RevMove.tla TableIdx bound every "
         "stored value/table index of the designs. The kernels (both decoders, seven objectives, error counter, plan "
         "length, game decoding, tour length, both move kernels for every i<j up to the last index, QAP objective) run "
         "with NUMBA_BOUNDSCHECK=1 on one-item/one-bin, every-item-in-its-own-bin, storage-edge, self-play (last team), "
         "all-self, extreme-value and random inputs.",
    note="Negative indices wrap silently even under bounds checking (caught only through value clauses). Controller "
         "and ODE kernels are covered by the C10/C16 drivers' own runs, not here. One genuine defect (self-play pair "
         "index) was found and fixed (d589596).")

CHECKS["C17"] = dict(
    category="model_checking", design_ref="DESIGN.md section 2 (C17)",
    technique="instance decoder as a cut machine with a geometric witness in TLA+; TLC checks all cut/trim sequences on "
              "small templates; recorded cuts of the real decoder (guarded hook) replayed through the machine step by "
              "step and the produced instance compared with the final machine state",
    text="MC_InstDecoder.tla: whatever cuts are chosen, the item regions stay a feasible packing into k bins and the area "
         "keeps needing k bins. The real decoder is run on synthetic (guillotine-built) and shipped templates with "
         "random, all -1/0/1, constant and float-neighbour vectors and 0..8 slack pairs; each hook event must be a legal "
         "Cut/Trim, the final shape multiset must equal the produced instance, and name, bin size, item count, area "
         "range, lower bound = template bin need, repeatability, and objective ranges ([0,1] as exact float order "
         "statements; Errors(template) = 0; hardness repeatable) are checked by TLC.",
    note="Genuine defect found and fixed (05ea788). Which item/position the real numbers select is NOT specified (only "
         "legality), so a different but legal selection rule never alarms. Hardness value itself is not judged.")

CHECKS["C10"] = dict(
    category="model_checking", design_ref="DESIGN.md section 2 (C10)",
    technique="retry loop of run_ode as a TLA+ machine (bounded attempts, strictly decreasing limits, termination under "
              "fairness); recorded simulations of a program catalogue validated by TLC through exact float order/"
              "bit-equality statements (F64 module), hook events checked against the machine; figure of merit and "
              "finite differences recomputed by TLC as fractions on exactly representable arrays",
    text="OdeRun.tla: at most 5 attempts, strictly decreasing limits, termination. Trace_Ode judges every recorded run of "
         "(equations, controller) programs (zero/decay/exploding/fast/ramp dynamics x fine, huge, NaN, inf, time-"
         "dependent controllers, bundled systems with bundled controllers): rows = steps with first row = start, time "
         "strictly increasing from 0 to at most the limit, all cells finite and inside (-1e10, 1e10), control = the "
         "controller re-invoked on the row (bit-equal), last time = last cycle limit; or the single failure row; at most "
         "5 cycles with strictly decreasing limits (hook). j_from_ode/t_from_ode/diff_from_ode on dyadic arrays equal "
         "the documented sums exactly.",
    note="NOT covered: agreement of simulated states with analytic solutions (numeric accuracy cannot be stated in "
         "TLA+); J of real simulation output (only structurally on exact inputs). Termination relies on a wall-clock "
         "guard per run.")

CHECKS["C11"] = dict(
    category="model_checking", design_ref="DESIGN.md section 2 (C11)",
    technique="history machine of the objective in TLA+ (mode, collected training data); TLC enumerates all histories "
              "up to a length and checks the data is a function of the raw evaluations since the last initialize; every "
              "maximal history is executed on real objectives and validated step by step",
    text="FoM.tla/MC_FoM: over initialize/set_raw/set_model/get_differentials/evaluate(x) the collected data changes "
         "only in raw evaluations and initialize. All TLC histories of the generator length, random long histories and "
         "bundled system/controller pairs run on FigureOfMerit and FigureOfMeritLE; Trace_FoM demands: each value "
         "bit-equal to a fresh objective's value for (x, mode), in [0,1e100] or = 1e200, 1e200 exactly when a training "
         "case is invalid, between min and max of the per-case merits the driver computes from run_ode + j_from_ode "
         "with the documented state_dims_in_j/gamma (slack in ulps), and the row counts of both collected lists equal "
         "the machine's expectation after every action.",
    note="The float mean / log-exp mean itself is only bracketed (TLA+ has no float arithmetic). The surrogate "
         "optimizer's protocol is not traced yet. Private collection lists are read via name-mangled attributes.")

CHECKS["C16"] = dict(
    category="model_checking", design_ref="DESIGN.md section 2 (C16)",
    technique="documented controller formulas in TLA+ (monomial sets and parameter<->monomial bijection, nearest-anchor "
              "law, exact peak sums, layered-network data-flow shape); generator design model-checked; real controllers "
              "probed on exact integer inputs and generated ANN code executed symbolically, all judged by TLC",
    text="AnnGen.tla model-checks the code generator design for every architecture of the scope (each neuron reads "
         "exactly the previous layer, parameter count formula) and that the prime-valued probe states separate all "
         "monomials. Trace_Ctrl: polynomial controllers must map parameters bijectively onto the complete monomial set "
         "(order-free) and be linear in the parameters; partially linear controllers must apply the law of a nearest "
         "anchor (ties free); peaks equal the sum of active multipliers on exact pre-activations; the data-flow graph "
         "recovered from the generated ANN source must be the layered network with every parameter used exactly once "
         "and the compiled network gives 0 for zero parameters; minimising networks stay in [-1000,1000]; Lorenz exact "
         "on integer states, the other systems on axis states; inputs unchanged.",
    note="Two genuine defects found and fixed (73d0a89, e91c905). NOT covered: arctan/exp based values away from exact "
         "points, the predefined laws, cubic terms of Stuart-Landau/oscillators for general states (no float "
         "arithmetic in TLA+). Controller rejects 1 input dimension, so architectures start at 2 inputs.")

CHECKS["C12"] = dict(
    category="model_checking", design_ref="DESIGN.md section 2 (C12)",
    technique="budget/best-so-far process machine in TLA+ model-checked; every bundled setup executed twice with the same "
              "seed with all objective calls recorded; process clauses, replica equality and fresh re-evaluation checked "
              "by TLC; logged solutions re-judged by the domain specifications (objective definitions, feasibility)",
    text="Process.tla: evaluations <= budget, best = minimum, evaluations after the budget only of the best. Runs: "
         "bin-packing rls/fea x 7 objectives x 2 encodings (log files parsed back: packing, 7 values, objective bounds, "
         "bin bounds), TSP EA/FEA, TTP (errors, plan length) and QAP RLS searches, instance generation with CMA-ES "
         "(tiny inner budgets), controller synthesis (raw; surrogate in thorough). Trace_Run: budget, best = min of the "
         "recorded evaluations, replica evaluation sequences bit-equal and same final solution, logged best = value of "
         "a FRESH objective on the logged solution; Trace_Obj/Trace_LB/Trace_TSP/Trace_TTP/Trace_QAP recompute the "
         "logged solution's value and feasibility from the specifications.",
    note="Small budgets and a few instances/seeds per setup. TSP EA/FEA register (x, f) pairs themselves, so their "
         "individual evaluations are not observable (covered by C06). The surrogate run is skipped if moptipy's "
         "BiPopCMAES fails to write its restart log (dependency defect outside this repository).")

CHECKS["C19"] = dict(
    category="model_checking", design_ref="DESIGN.md section 2 (C19)",
    technique="token grammars of the text forms and their inverses in TLA+, model-checked to invert on all small "
              "objects; real write/read round trips (compact instance strings, packing/game-plan/ordering texts, CSV "
              "tables of results and statistics from tiny real runs) compared field by field by TLC",
    text="MC_Text.tla: InstTokens/InstFromTokens and Flatten/Unflatten invert on all small instances/matrices. "
         "Trace_Text: the compact string of random, degenerate, storage-edge, tall-bin (rotate-only items), dense and "
         "shipped instances follows the grammar (times only if > 1), re-parses, and every projected field incl. item "
         "count, area, lower bound and dtype is equal; packing, game-plan and ordering texts are the row-major "
         "flattening and parse back; PackingResult and PackingStatistics tables built from real runs with differing "
         "algorithm, optimised objective, encoding and budget kind survive to_csv/from_csv with every flattened field "
         "equal.",
    note="This is encode/decode fidelity, for which the specification is thin (grammar + equality): claimed as round-trip "
         "equality over the enumerated and sampled object space. One genuine defect found and fixed (2e6fa31). moptipy's "
         "own EndStatistics budget representation (int vs degenerate statistics) is normalised (dependency, not under "
         "test). Instances with total area >= 2^31 are skipped here.")

NOT_YET = {
}

PROPS = [json.loads(l)["id"] for l in (ROOT / "properties.jsonl").read_text().splitlines() if l.strip()]


# families added after the seeded-change rounds 2 and 3 (DESIGN.md 9.7); appended to the level text
ADDED = {
    "C02": "The library's result record (from_packing_and_end_result, defaults) of the first packing of each case must "
           "carry the same seven values and declared bounds.",
    "C03": "Further observables: the three bin bounds every PackingResult carries, directly and inside the records "
           "derived for the witness packings (repeating instance names; a record that rejects a feasible packing is a "
           "verdict). Constructors of very large bins run under a wall clock. Every fifth dissection is untrimmed and "
           "scaled by a common unit (pieces tile the bins completely).",
    "C05": "Caller-supplied lower bound / range multiplier, shipped instances with their published bounds, 127..400 cities.",
    "C06": "127..300 cities. FEA runs that log their frequency table (do_log_h): same trace, logged lengths in range, "
           "every visited length counted.",
    "C07": "The domain of the property (GamePlanSpace.validate vs WellShaped: values just outside -n..n, wrong shapes, "
           "foreign dtype/instance); the limits stored by the instance vs the constructor arguments; 32..130 teams.",
    "C08": "32..130 teams.",
    "C09": "Caller-supplied (valid, TLC-rechecked) bounds; shipped instances with their own bounds; every shipped "
           "instance of any size: reported values inside the bounds the loaded instance declares.",
    "C10": "multi_run_ode (order, running index, group budgets, merit/time of that simulation) and the ResultsLog table; "
           "adaptive wall-clock guards.",
    "C12": "Bin-packing runs also on own instances (generated, turned by 90 degrees, full-height items) with each "
           "encoding; a run that does not end normally is a verdict.",
    "C13": "Also every controller family, the system equations, the simulation kernels, the swap distance and the real "
           "EA/FEA solve loops under bounds checking.",
    "C15": "31..129 teams.",
    "C16": "Predefined laws at their exact points; the make_ann cache (confusable architectures); the predefined "
           "tanh law under every pattern of zero divisors; a kernel that raises is a verdict.",
    "C17": "Decode calls under a wall clock; another vector decoded into a used receiver must deliver that vector's instance. "
           "Hardness histories across a change of instance name.",
    "C19": "Synthetic result/statistics tables (fractional and infinite bounds, 1..3 kinds of bin bounds), 2DPackLib "
           "files, packings through real log files of own instances.",
}


def main() -> None:
    checks = []
    for pid in PROPS:
        c = CHECKS.get(pid)
        if not c:
            continue
        checks.append({
            "property_id": pid,
            "quick_cmd": f"./check {pid} --tier quick",
            "thorough_cmd": f"./check {pid} --tier thorough",
            "evidence_file": f"/verif/evidence/{pid}.json",
            "replay_cmd_template": f"./check {pid} --replay {{path}}",
            "engine": "tlc",
            "level_claimed": {"category": c["category"],
                              "text": c["text"] + ((" Added later: " + ADDED[pid]) if pid in ADDED else ""),
                              "design_ref": c["design_ref"]},
            "level_note": c["note"],
            "technique": c["technique"],
        })
    na = [{"property_id": p, "reason": NOT_YET.get(p, "no check registered yet in this commit (machinery under construction; see DESIGN.md section 2 for the plan)")}
          for p in PROPS if p not in CHECKS]
    man = {
        "version": 1,
        "setup_cmd": "./setup.sh",
        "hooks": {
            "guard": "MOPTIPYAPPS_VERIF",
            "enable": "checks set MOPTIPYAPPS_VERIF=1 in the environment before importing moptipyapps from /repo (pure Python, no build step)",
            "baseline_off_cmd": "cd /repo && env -u MOPTIPYAPPS_VERIF " + BASE["cmd"].split("&& ", 1)[1].replace("<file>", "/tmp/baseline_off.junit.xml"),
            "source_commits": ["ff01998", "8af539c"],
            "add_only": True,
        },
        "engines": [{"name": "tlc", "path": "/verif/spec", "serves_properties": [c["property_id"] for c in checks],
                     "kind_free_text": "TLA+ specifications checked with TLC 1.8 (exhaustive small scope, generator "
                                       "configurations, trace validation of recorded executions of /repo)"}],
        "checks": checks,
        "not_applicable": na,
        "notes": "All checks import moptipyapps from /repo's working tree at run time. KNOWN_FINDINGS.json lists genuine defects (open or fixed).",
    }
    (ROOT / "MANIFEST.json").write_text(json.dumps(man, indent=1) + "\n")
    print(f"{len(checks)} checks, {len(na)} not claimed")


if __name__ == "__main__":
    main()
