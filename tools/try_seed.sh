#!/bin/bash
# usage: try_seed.sh <patch.diff> <PROP> [tier]   -- apply a seeded change to /repo, run the check, undo it
patch=$1; prop=$2; tier=${3:-quick}
cd /verif
if [ -n "$(git -C /repo status --porcelain --untracked-files=no)" ]; then echo "/repo not clean"; exit 3; fi
git -C /repo apply "$patch" || exit 3
./check $prop --tier $tier > /verif/.work/try_$prop.log 2>&1; rc=$?
git -C /repo checkout -- .
echo "rc=$rc"; grep -E "^VIOLATION|^KNOWN|MACHINERY|tier=" /verif/.work/try_$prop.log | head -8
