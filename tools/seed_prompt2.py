#!/usr/bin/env python3
"""Round-2 prompt: like seed_prompt.py but asks for changes different from the ones already collected."""
import json, subprocess, sys
pid = sys.argv[1]
base = subprocess.run(["/verif/tools/seed_prompt.py", pid], capture_output=True, text=True).stdout
known = []
for X in "ABCDEFGHIJ":
    try:
        m = json.load(open(f"/verif/seeded/{pid}{X}/meta.json"))
        known.append(f"- files {m.get('files_changed')}: {str(m.get('needs_to_manifest'))[:300]}")
    except Exception:
        pass
extra = ("\n\nIMPORTANT ADDITION: several changes for this property have already been collected in earlier rounds. "
         "Yours must be of a DIFFERENT kind and, if possible, at different sites / break different clauses of the "
         "property (other functions, other files of the list, other parts of the statement). Already collected "
         "(do not repeat these):\n" + "\n".join(known) +
         "\nNever use `git stash` (it is shared between worktrees); use `git diff > x.diff; git apply -R x.diff`.\n")
print(base + extra)
