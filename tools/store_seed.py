#!/venv/bin/python
"""store_seed.py ID X : copy a confirmed seeded change from its scratch worktree into /verif/seeded/<ID><X>/"""
import json, shutil, sys
from pathlib import Path
pid, X = sys.argv[1], sys.argv[2]
wt = Path(f"/tmp/wt/{pid}")
if pid.endswith("r5"):           # fifth round: A -> I, B -> J
    pid = pid[:-2]
    dst = Path(f"/verif/seeded/{pid}{ {'A': 'I', 'B': 'J'}[X] }")
elif pid.endswith("r4"):           # fourth round: A -> G, B -> H
    pid = pid[:-2]
    dst = Path(f"/verif/seeded/{pid}{ {'A': 'G', 'B': 'H'}[X] }")
elif pid.endswith("r3"):           # third round: A -> E, B -> F
    pid = pid[:-2]
    dst = Path(f"/verif/seeded/{pid}{ {'A': 'E', 'B': 'F'}[X] }")
elif pid.endswith("r2"):           # second round: worktree C02r2, change A -> /verif/seeded/C02C, B -> C02D
    pid = pid[:-2]
    dst = Path(f"/verif/seeded/{pid}{ {'A': 'C', 'B': 'D'}[X] }")
else:
    dst = Path(f"/verif/seeded/{pid}{X}")
dst.mkdir(parents=True, exist_ok=True)
shutil.copy(wt / f"mut{X}.diff", dst / "patch.diff")
shutil.copy(wt / f"demo{X}.py", dst / "demo.py")
conf = json.loads((wt / f"confirm{X}.json").read_text())
try:
    am = json.loads((wt / "meta.json").read_text()).get(X, {})
except Exception:
    am = {}
meta = {
    "property": pid,
    "origin": "independent sub-agent given only the property text and a scratch worktree",
    "files_changed": conf.get("files") or am.get("files_changed"),
    "needs_to_manifest": am.get("what_it_needs_to_manifest"),
    "confirmed_by_me": {
        "how": "tools/confirm_seed.sh in the scratch worktree: demo on clean tree, demo with patch, full pinned "
               "test-suite command of BASELINE.json with the patch, doctests of the changed modules",
        "demo_exit_clean_tree": conf.get("demo_exit_clean"),
        "demo_exit_with_patch": conf.get("demo_exit_mutant"),
        "tests_total": conf.get("tests_total"),
        "failed_tests": conf.get("failed"),
        "failed_among_baseline_stable": conf.get("failed_among_baseline_stable"),
        "note": "tests.binpacking2d.test_make_instances needs the network and is in BASELINE always_fail",
    },
    "demo_cmd": "cd <worktree with patch applied> && PYTHONPATH=<worktree> /venv/bin/python demo.py  (exit 1 = property broken)",
    "detected_by": [],
}
if len(sys.argv) > 3:
    meta["confirmed_by_me"]["extra"] = sys.argv[3]
(dst / "meta.json").write_text(json.dumps(meta, indent=1) + "\n")
print("stored", dst)
