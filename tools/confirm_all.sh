#!/bin/bash
# confirm_all.sh ID...  : A then B per worktree sequentially, worktrees in parallel
for id in "$@"; do
  ( /verif/tools/confirm_seed.sh /tmp/wt/$id A > /tmp/wt/$id/confirmA.out 2>&1; /verif/tools/confirm_seed.sh /tmp/wt/$id B > /tmp/wt/$id/confirmB.out 2>&1 ) &
done
wait
