"""Thin, deterministic runner around TLC (tla2tools 1.8) for the checks in /verif."""
from __future__ import annotations

import os
import re
import shutil
import subprocess
import tempfile
import time
from dataclasses import dataclass, field
from pathlib import Path

from . import tlaval

ROOT = Path(__file__).resolve().parent.parent
SPEC = ROOT / "spec"
WORK = ROOT / ".work"
JAR = "/opt/veriftools/tla/tla2tools.jar"
DEPS = "/opt/veriftools/tla/CommunityModules-deps.jar"


class MachineryError(Exception):
    """Something in the verification machinery (not the code under test) failed."""


@dataclass
class TlcResult:
    rc: int
    out: str
    wall_s: float
    generated: int = 0
    distinct: int = 0
    depth: int = 0
    violation: str | None = None      # name of violated invariant / property / None
    error: str | None = None          # TLC evaluation error text (machinery or model error)
    trace: list = field(default_factory=list)   # counterexample states (dicts)
    coverage: dict = field(default_factory=dict)

    def tagged(self, tag: str):
        return list(tlaval.find_tagged(self.out, tag))

    @property
    def ok(self) -> bool:
        return self.rc == 0 and self.violation is None and self.error is None


_SUMMARY = re.compile(
    r"(\d+) states generated, (\d+) distinct states found, (\d+) states left on queue")
_DEPTH = re.compile(r"The depth of the complete state graph search is (\d+)")
_INV = re.compile(r"Error: Invariant (\S+) is violated")
_ACTPROP = re.compile(r"Error: Action property (\S+) is violated")
_TEMPORAL = re.compile(r"Error: Temporal properties were violated")
_STATE_HDR = re.compile(r"^State (\d+): ?(.*)$", re.M)


def work_dir(prefix: str) -> Path:
    WORK.mkdir(exist_ok=True)
    return Path(tempfile.mkdtemp(prefix=prefix + "-", dir=WORK))


def run(module: str | Path, cfg: str | Path | None = None, *, cfg_text: str | None = None,
        env: dict | None = None, workers: int | str = 1, timeout: float = 900,
        simulate: str | None = None, depth: int | None = None, dump: str | None = None,
        coverage: bool = False, deadlock: bool = False, seed: int | None = None,
        java_props: dict | None = None, heap: str = "8g", extra: list | None = None,
        keep: bool = False, allow_violation: bool = True) -> TlcResult:
    """Run TLC on `module` (path relative to /verif/spec or absolute) with a config.

    `cfg_text` writes a generated configuration (literal constants).  All metadata goes
    to a private directory below /verif/.work which is removed afterwards.
    """
    mod = Path(module)
    if not mod.is_absolute():
        mod = SPEC / mod
    if mod.suffix != ".tla":
        mod = mod.with_suffix(".tla")
    if not mod.exists():
        raise MachineryError(f"no such module {mod}")
    wd = work_dir("tlc")
    try:
        if cfg_text is not None:
            cfgp = wd / (mod.stem + ".cfg")
            cfgp.write_text(cfg_text)
        elif cfg is not None:
            cfgp = Path(cfg)
            if not cfgp.is_absolute():
                cfgp = mod.parent / cfgp
        else:
            cfgp = mod.with_suffix(".cfg")
        libs = os.pathsep.join(str(p) for p in sorted(SPEC.iterdir()) if p.is_dir())
        cmd = ["java", "-XX:+UseParallelGC", f"-Xmx{heap}", "-Xss256m", f"-DTLA-Library={libs}"]
        for k, v in (java_props or {}).items():
            cmd.append(f"-D{k}={v}")
        cmd += ["-cp", f"{JAR}:{DEPS}", "tlc2.TLC", "-metadir", str(wd / "meta"),
                "-noGenerateSpecTE", "-workers", str(workers), "-config", str(cfgp)]
        if not deadlock:
            cmd.append("-deadlock")   # switch deadlock checking OFF
        if simulate is not None:
            cmd += ["-simulate", simulate]
        if depth is not None:
            cmd += ["-depth", str(depth)]
        if seed is not None:
            cmd += ["-seed", str(seed)]
        if dump is not None:
            cmd += ["-dump", dump]
        if coverage:
            cmd += ["-coverage", "1"]
        cmd += list(extra or [])
        cmd.append(str(mod))
        e = dict(os.environ)
        e.pop("JAVA_TOOL_OPTIONS", None)
        e.update({k: str(v) for k, v in (env or {}).items()})
        t0 = time.time()
        try:
            pr = subprocess.run(cmd, cwd=str(mod.parent), env=e, capture_output=True,
                                text=True, timeout=timeout)
        except subprocess.TimeoutExpired as ex:
            subprocess.run(["pkill", "-f", str(wd / "meta")], check=False)
            raise MachineryError(f"TLC timed out after {timeout}s on {mod.name}") from ex
        out = pr.stdout + ("\n" + pr.stderr if pr.stderr.strip() else "")
        res = TlcResult(pr.returncode, out, time.time() - t0)
        ms = _SUMMARY.findall(out)
        if ms:
            res.generated, res.distinct = int(ms[-1][0]), int(ms[-1][1])
        md = _DEPTH.search(out)
        if md:
            res.depth = int(md.group(1))
        m = _INV.search(out) or _ACTPROP.search(out)
        if m:
            res.violation = m.group(1)
        elif _TEMPORAL.search(out):
            res.violation = "<temporal>"
        elif "Error: Deadlock reached" in out:
            res.violation = "<deadlock>"
        if res.violation:
            res.trace = _parse_trace(out)
        elif pr.returncode != 0 or "Error:" in out:
            idx = out.find("Error:")
            res.error = out[idx:idx + 3000] if idx >= 0 else out[-3000:]
        if coverage:
            res.coverage = _parse_coverage(out)
        if res.error and not allow_violation:
            raise MachineryError(res.error)
        return res
    finally:
        if not keep:
            shutil.rmtree(wd, ignore_errors=True)


def _parse_trace(out: str) -> list:
    states = []
    hdrs = list(_STATE_HDR.finditer(out))
    for i, h in enumerate(hdrs):
        end = hdrs[i + 1].start() if i + 1 < len(hdrs) else len(out)
        block = out[h.end():end]
        # cut at first blank line
        k = block.find("\n\n")
        if k >= 0:
            block = block[:k]
        try:
            st = tlaval.parse_state(block)
        except (ValueError, IndexError):
            st = {"_raw": block}
        st["_action"] = h.group(2)
        states.append(st)
    return states


_COV = re.compile(r"^<(\w+) line (\d+), col (\d+) to line (\d+), col (\d+) of module (\w+)>: (\d+):(\d+)", re.M)


def _parse_coverage(out: str) -> dict:
    cov = {}
    for m in _COV.finditer(out):
        cov[m.group(1)] = cov.get(m.group(1), 0) + int(m.group(8))
    return cov


def sany(module: Path) -> tuple[bool, str]:
    libs = os.pathsep.join(str(p) for p in sorted(SPEC.iterdir()) if p.is_dir())
    pr = subprocess.run(
        ["java", f"-DTLA-Library={libs}", "-cp", f"{JAR}:{DEPS}", "tla2sany.SANY", str(module)],
        cwd=str(module.parent), capture_output=True, text=True, timeout=300)
    ok = pr.returncode == 0 and "Semantic errors" not in pr.stdout and "***Parse Error***" not in pr.stdout \
        and "Fatal errors" not in pr.stdout and "Could not find module" not in pr.stdout
    return ok, pr.stdout + pr.stderr


def read_dump(path: str | Path, must_contain: str | None = None):
    """Yield the states of a `-dump` file as dicts (streaming).

    `must_contain`: only blocks containing this text are parsed (cheap pre-filter, e.g.
    'pc = "done"' to keep terminal states only).
    """
    buf: list = []

    def flush():
        if buf:
            blk = "".join(buf).strip()
            if blk and (must_contain is None or must_contain in blk):
                return tlaval.parse_state(blk)
        return None

    with open(path) as fh:
        for line in fh:
            if line.startswith("State ") and line.rstrip().endswith(":"):
                st = flush()
                if st is not None:
                    yield st
                buf = []
            else:
                buf.append(line)
    st = flush()
    if st is not None:
        yield st
