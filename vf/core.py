"""Shared machinery: case execution, sharded TLC trace validation, verdict handling,
known findings, evidence files, replays."""
from __future__ import annotations

import concurrent.futures as cf
import json
import os
import struct
import sys
import time
from dataclasses import dataclass, field
from pathlib import Path

from . import tlc
from .tlc import MachineryError, ROOT, WORK

_OUT = Path(os.environ["VERIF_OUT"]) if os.environ.get("VERIF_OUT") else ROOT   # scratch output for mutation try-outs
EVIDENCE = _OUT / "evidence"
REPLAYS = _OUT / "replays"
KNOWN = ROOT / "KNOWN_FINDINGS.json"
INT_MAX = 2 ** 31 - 1
BASE = 10_000


# ----------------------------------------------------------------------------- encodings
def big(n: int) -> list:
    """Natural number -> little-endian limbs base 10^4 (spec/common/BigNat.tla)."""
    n = int(n)
    if n < 0:
        raise MachineryError(f"big() of negative number {n}")
    out = []
    while n > 0:
        out.append(n % BASE)
        n //= BASE
    return out


def sbig(n: int) -> dict:
    """Signed integer -> [neg |-> BOOLEAN-as-0/1, m |-> limbs]."""
    n = int(n)
    return {"neg": 1 if n < 0 else 0, "m": big(abs(n))}


def unbig(limbs) -> int:
    v = 0
    for d in reversed(list(limbs)):
        v = v * BASE + int(d)
    return v


OUT_OF_RANGE = 2_000_000_011       # stands for "beyond TLC's native integers" (sign kept)
OUT_OF_RANGE_SEEN: list = []


def small(n) -> int:
    """An int that TLC can hold natively.  The drivers keep their own data in range by construction, so a value
    beyond it is something the code under test returned (a wrapped or exploded number): it is replaced by a
    marker that equals no expected value, so that it ends in a verdict.  If a run meets such a value and still
    finds nothing, finish() reports a machinery failure (then it was the driver's own data after all)."""
    n = int(n)
    if not -INT_MAX - 1 <= n <= INT_MAX:
        OUT_OF_RANGE_SEEN.append(n)
        return OUT_OF_RANGE if n > 0 else -OUT_OF_RANGE
    return n


def f64(v: float) -> dict:
    """IEEE double -> order-preserving record (spec/common/F64.tla).

    k: "fin" | "inf" | "nan"; s: 1 if the sign bit is set; (a, b, c): 20/21/22 bits of the
    magnitude bits, most significant first.  For finite values, lexicographic order on
    (a, b, c) is the order of the magnitudes.
    """
    bits = struct.unpack(">Q", struct.pack(">d", float(v)))[0]
    s = bits >> 63
    m = bits & ((1 << 63) - 1)
    a = m >> 43
    b = (m >> 22) & ((1 << 21) - 1)
    c = m & ((1 << 22) - 1)
    exp = (m >> 52) & 0x7FF
    man = m & ((1 << 52) - 1)
    k = "fin"
    if exp == 0x7FF:
        k = "nan" if man else "inf"
    return {"k": k, "s": int(s), "a": int(a), "b": int(b), "c": int(c)}


def jdump(obj) -> str:
    return json.dumps(obj, separators=(",", ":"), sort_keys=True)


# ----------------------------------------------------------------------------- verdicts
@dataclass
class Verdict:
    case_id: str
    clause: str            # "ok" or the name of the first failed clause
    case: dict | None = None


@dataclass
class Report:
    """What one run of one property's check found and covered."""

    prop: str
    tier: str
    seed: int
    level: str = "model_checking"
    states: int = 0
    transitions: int = 0
    traces: int = 0
    evaluations: int = 0
    nontrivial: int = 0
    rule: str = ""
    samples: list = field(default_factory=list)
    violations: list = field(default_factory=list)     # Verdict objects (not known)
    known_hits: dict = field(default_factory=dict)     # finding id -> count
    mc_runs: list = field(default_factory=list)
    families: dict = field(default_factory=dict)
    assumptions: list = field(default_factory=list)
    notes: list = field(default_factory=list)
    exhaustive: bool = False
    t0: float = field(default_factory=time.time)

    def add_mc(self, name: str, res: tlc.TlcResult, expect_violation: str | None = None) -> None:
        """Record a model-checking run of the specification alone."""
        if res.error:
            raise MachineryError(f"TLC failed on {name}: {res.error[:1500]}")
        if expect_violation is None and res.violation:
            tr = res.trace[-1] if res.trace else {}
            raise MachineryError(
                f"design-level model check {name} violated {res.violation}: "
                f"{jdump(_plain(tr))[:1500]} -- the specification itself is wrong")
        if expect_violation is not None and res.violation != expect_violation:
            raise MachineryError(
                f"model check {name}: expected witness via {expect_violation}, got {res.violation}")
        self.states += res.distinct
        self.transitions += res.generated
        self.mc_runs.append({"name": name, "distinct_states": res.distinct,
                             "states_generated": res.generated, "depth": res.depth,
                             "wall_s": round(res.wall_s, 2)})

    def family(self, name: str, n: int, nontrivial: int = 0) -> None:
        f = self.families.setdefault(name, {"cases": 0, "nontrivial": 0})
        f["cases"] += n
        f["nontrivial"] += nontrivial


def _plain(o):
    if isinstance(o, dict):
        return {str(k): _plain(v) for k, v in o.items()}
    if isinstance(o, (list, tuple)):
        return [_plain(v) for v in o]
    return o


# ----------------------------------------------------------------------------- validation
_TRACE_TAIL = """
"""


def validate(trace_module: str, cases: list, *, shards: int = 12, cfg_text: str | None = None,
             tag: str = "V", timeout: float = 3000, heap: str = "3g",
             java_props: dict | None = None) -> dict:
    """Validate recorded cases (dicts with a unique 'id') against a trace specification.

    The cases are written as ndjson shards, one TLC process per shard (the trace specs
    are sequential: `-workers 1`).  Every case must come back with exactly one verdict
    `<<tag, id, clause>>`, otherwise the run is a machinery failure (no vacuous pass).
    """
    if not cases:
        return {}
    ids = [c["id"] for c in cases]
    if len(set(ids)) != len(ids):
        raise MachineryError("duplicate case ids")
    shards = max(1, min(shards, len(cases)))
    wd = tlc.work_dir("trace")
    files = []
    try:
        for k in range(shards):
            part = cases[k::shards]
            fp = wd / f"shard{k}.ndjson"
            with fp.open("w") as fh:
                for c in part:
                    fh.write(jdump(c))
                    fh.write("\n")
            files.append((fp, len(part)))
        cfg = cfg_text if cfg_text is not None else "SPECIFICATION Spec\n"

        def one(item):
            fp, n = item
            res = tlc.run(trace_module, cfg_text=cfg, env={"TRACE_FILE": str(fp)}, workers=1,
                          timeout=timeout, heap=heap, java_props=java_props)
            return res, n

        verdicts = {}
        with cf.ThreadPoolExecutor(max_workers=min(shards, os.cpu_count() or 4)) as ex:
            for res, n in ex.map(one, files):
                if res.error or res.violation:
                    raise MachineryError(
                        f"trace validation with {trace_module} failed: "
                        f"{res.error or res.violation}\n{res.out[-2500:]}")
                got = res.tagged(tag)
                if len(got) != n:
                    raise MachineryError(
                        f"{trace_module}: {len(got)} verdicts for {n} cases\n{res.out[-2000:]}")
                if res.distinct != n + 1:
                    raise MachineryError(
                        f"{trace_module}: consumed {res.distinct - 1} of {n} cases")
                for v in got:
                    verdicts[v[1]] = v[2] if len(v) == 3 else v[2:]
        missing = [i for i in ids if i not in verdicts]
        if missing:
            raise MachineryError(f"no verdict for cases {missing[:5]}")
        return verdicts
    finally:
        import shutil
        shutil.rmtree(wd, ignore_errors=True)


# ----------------------------------------------------------------------------- findings
def load_known(prop: str) -> list:
    if not KNOWN.exists():
        return []
    data = json.loads(KNOWN.read_text())
    return [f for f in data.get("findings", [])
            if f.get("property") == prop and f.get("status") == "open"]


def clauses_of(verdict) -> list:
    """A verdict is "ok", a clause name, or a collection of clause names."""
    if isinstance(verdict, str):
        return [] if verdict == "ok" else [verdict]
    return [str(c) for c in verdict if c != "ok"]


def classify(report: Report, verdicts: dict, cases_by_id: dict, *, family: str) -> None:
    """Split non-ok verdicts into listed known findings and new violations."""
    known = load_known(report.prop)
    for cid, verdict in verdicts.items():
        for clause in clauses_of(verdict):
            hit = None
            for f in known:
                if f["clause"] == clause and (not f.get("family") or f["family"] == family):
                    hit = f
                    break
            if hit is not None:
                report.known_hits[hit["id"]] = report.known_hits.get(hit["id"], 0) + 1
            else:
                report.violations.append(Verdict(cid, str(clause), cases_by_id.get(cid)))


# ----------------------------------------------------------------------------- output
def finish(report: Report) -> int:
    """Write evidence and replays, print verdict lines, return the exit code."""
    if OUT_OF_RANGE_SEEN and not report.violations:
        raise MachineryError(f"{len(OUT_OF_RANGE_SEEN)} integers beyond TLC's native range were recorded "
                             f"(e.g. {OUT_OF_RANGE_SEEN[0]}) and no verdict names them: use big()")
    if OUT_OF_RANGE_SEEN:
        report.notes.append(f"{len(OUT_OF_RANGE_SEEN)} recorded integers were beyond TLC's native range and were "
                            f"replaced by the marker {OUT_OF_RANGE} (e.g. {OUT_OF_RANGE_SEEN[0]})")
    EVIDENCE.mkdir(parents=True, exist_ok=True)
    known = {f["id"]: f for f in load_known(report.prop)}
    for fid, cnt in sorted(report.known_hits.items()):
        print(f"KNOWN-FINDING: property={report.prop} {known[fid]['what']} "
              f"[{fid}; {cnt} case(s) this run]")
    rc = 0
    rdir0 = REPLAYS / report.prop
    if rdir0.exists():
        for old in rdir0.glob("*.json"):
            old.unlink()
    per_clause = {}
    listed = 0
    for v in report.violations:
        k = per_clause.get(v.clause, 0)
        per_clause[v.clause] = k + 1
        if k >= 4 or listed >= 60:
            continue
        listed += 1
        rdir = REPLAYS / report.prop
        rdir.mkdir(parents=True, exist_ok=True)
        safe = "".join(ch if ch.isalnum() or ch in "-_." else "_" for ch in str(v.case_id))[:80]
        path = rdir / f"{safe}.json"
        if path.exists():
            path = rdir / f"{safe}.{listed}.json"
        path.write_text(json.dumps({"property": report.prop, "clause": v.clause,
                                    "case": v.case}, indent=1, sort_keys=True))
        print(f"VIOLATION property={report.prop} replay={path} clause={v.clause}")
        rc = 1
    if len(report.violations) > listed:
        print(f"... {len(report.violations) - listed} further violating cases not listed")
    if report.violations:
        hist = {}
        for v in report.violations:
            hist[v.clause] = hist.get(v.clause, 0) + 1
        print("violated clauses: " + json.dumps(hist, sort_keys=True))
    cov = {
        "states": int(report.states),
        "transitions": int(report.transitions),
        "traces_validated_against_impl": int(report.traces),
        "evaluations": int(max(report.evaluations, report.traces)),
        "distinct_nontrivial": int(report.nontrivial),
        "rule": report.rule,
        "samples": report.samples[:6] if report.samples else [],
        "exhaustive": bool(report.exhaustive),
        "model_checking_runs": report.mc_runs,
        "families": report.families,
        "known_finding_hits": report.known_hits,
        "notes": report.notes,
    }
    if report.level == "other":      # a run cut short (see ./check): nothing was covered, only the explanation counts
        cov = {"explanation": report.rule, "notes": report.notes}
    ev = {
        "property_id": report.prop,
        "tier": report.tier,
        "seed": int(report.seed),
        "level": report.level,
        "coverage": cov,
        "assumptions": report.assumptions,
        "wall_s": round(time.time() - report.t0, 2),
        "violations": len(report.violations),
    }
    edir = EVIDENCE / "extra" if report.prop.startswith("X") else EVIDENCE    # X..: beyond the listed properties
    edir.mkdir(parents=True, exist_ok=True)
    (edir / f"{report.prop}.json").write_text(json.dumps(ev, indent=1) + "\n")
    print(f"{report.prop} tier={report.tier} seed={report.seed}: states={report.states} "
          f"transitions={report.transitions} traces={report.traces} "
          f"violations={len(report.violations)} known={sum(report.known_hits.values())} "
          f"wall={ev['wall_s']}s")
    sys.stdout.flush()
    return rc
