"""Drivers for the TTP subsystem (errors objective, plan length, game encoding)."""
from __future__ import annotations

import itertools
import random

import numpy as np

from .core import small

_M = {}


def mods():
    if not _M:
        from moptipyapps.ttp.errors import Errors, count_errors
        from moptipyapps.ttp.game_encoding import (
            GameEncoding,
            map_games,
            search_space_for_n_and_rounds,
        )
        from moptipyapps.ttp.game_plan import GamePlan
        from moptipyapps.ttp.game_plan_space import GamePlanSpace
        from moptipyapps.ttp.instance import Instance
        from moptipyapps.ttp.plan_length import GamePlanLength
        _M.update(Errors=Errors, count_errors=count_errors, GameEncoding=GameEncoding,
                  map_games=map_games, ss=search_space_for_n_and_rounds, GamePlan=GamePlan,
                  GamePlanSpace=GamePlanSpace, Instance=Instance, GamePlanLength=GamePlanLength)
    return _M


def make_instance(n: int, rounds: int, cfg: dict | None = None, matrix=None, name: str = "v"):
    """A TTP instance with arbitrary (admissible) constraint settings and distances."""
    I = mods()["Instance"]
    if matrix is None:
        matrix = [[0 if i == j else 1 + abs(i - j) for j in range(n)] for i in range(n)]
    ll = rounds * n - 1
    c = {"hmin": 1, "hmax": min(3, ll), "amin": 1, "amax": min(3, ll), "smin": 1,
         "smax": ll}
    c.update(cfg or {})
    inst = I(name, np.array(matrix, dtype=np.int64), [f"t{i}" for i in range(n)], rounds,
             c["hmin"], c["hmax"], c["amin"], c["amax"], c["smin"], c["smax"])
    _INTENDED[id(inst)] = (inst, {"n": n, "rounds": rounds, **{k: c[k] for k in ("hmin", "hmax", "amin", "amax", "smin", "smax")}})
    return inst


_INTENDED: dict = {}


def stored_cfg(inst) -> dict:
    return {"n": small(inst.n_cities), "rounds": small(inst.rounds),
            "hmin": small(inst.home_streak_min), "hmax": small(inst.home_streak_max),
            "amin": small(inst.away_streak_min), "amax": small(inst.away_streak_max),
            "smin": small(inst.separation_min), "smax": small(inst.separation_max)}


def cfg_of(inst) -> dict:
    """The constraint settings of an instance: for instances built by make_instance the values handed to the
    constructor (the specification judges by these), with what the instance stores as field `stored` (the
    specification demands that they agree); for loaded instances what the instance stores."""
    st = stored_cfg(inst)
    hit = _INTENDED.get(id(inst))
    if hit is not None and hit[0] is inst:
        return {**{k: small(v) for k, v in hit[1].items()}, "stored": st}
    return {**st, "stored": st}


def plan_obj(inst, rows):
    y = mods()["GamePlan"](inst)
    y[:, :] = np.array(rows, dtype=np.int64)
    return y


def consistent_days(n: int) -> list:
    """All day-wise consistent rows for n teams (every team plays)."""
    out = []

    def rec(day, free):
        if not free:
            out.append(day[:])
            return
        t = free[0]
        for o in free[1:]:
            rest = [f for f in free if f not in (t, o)]
            day[t], day[o] = o + 1, -(t + 1)
            rec(day, rest)
            day[t], day[o] = -(o + 1), t + 1
            rec(day, rest)
        day[t] = 0

    rec([0] * n, list(range(n)))
    return out


def random_plan(rng: random.Random, n: int, days: int, kind: str) -> list:
    if kind == "arbitrary":
        return [[rng.randint(-n, n) for _ in range(n)] for _ in range(days)]
    cd = _CD.setdefault(n, consistent_days(n) if n <= 8 else None)
    rows = []
    for _ in range(days):
        if cd is not None:
            rows.append(list(rng.choice(cd)))
        else:
            teams = list(range(n))
            rng.shuffle(teams)
            day = [0] * n
            for a, b in zip(teams[::2], teams[1::2]):
                if rng.random() < 0.5:
                    a, b = b, a
                day[a], day[b] = b + 1, -(a + 1)
            rows.append(day)
    if kind == "byes":
        for _ in range(rng.randint(1, max(1, days // 2))):
            d = rng.randrange(days)
            t = rng.randrange(n)
            o = abs(rows[d][t]) - 1
            if o >= 0:
                rows[d][t] = 0
                rows[d][o] = 0
    elif kind == "self":
        d, t = rng.randrange(days), rng.randrange(n)
        rows[d][t] = (t + 1) * rng.choice([-1, 1])
    elif kind == "one-wrong":
        d, t = rng.randrange(days), rng.randrange(n)
        rows[d][t] = rng.randint(-n, n)
    return rows


_CD: dict = {}


def circle_schedule(n: int, rounds: int, rng: random.Random) -> list:
    """A consistent round robin by the circle method (each pair `rounds` times),
    orientation alternating per round: mostly near-feasible plans."""
    teams = list(range(n))
    rng.shuffle(teams)
    base = []
    arr = teams[:]
    for _ in range(n - 1):
        day = [0] * n
        for i in range(n // 2):
            a, b = arr[i], arr[n - 1 - i]
            if rng.random() < 0.5:
                a, b = b, a
            day[a], day[b] = b + 1, -(a + 1)
        base.append(day)
        arr = [arr[0]] + [arr[-1]] + arr[1:-1]
    rows = []
    for r in range(rounds):
        blk = [d[:] for d in base]
        if r % 2 == 1:
            blk = [[-v for v in d] for d in blk]
        if rng.random() < 0.7:
            rng.shuffle(blk)
        rows.extend(blk)
    return rows


def all_plans_n2(rounds: int):
    days = rounds
    vals = range(-2, 3)
    for cells in itertools.product(vals, repeat=2 * days):
        yield [list(cells[2 * d:2 * d + 2]) for d in range(days)]
