"""Set-up self checks: SANY on every module, BigNat vs native arithmetic, value parser."""
import sys
from concurrent.futures import ThreadPoolExecutor

from . import tlaval, tlc


def main() -> int:
    assert tlaval.parse('<<"V", 3, "ok">>') == ["V", 3, "ok"]
    mods = sorted(p for p in tlc.SPEC.rglob("*.tla") if ".tlacache" not in p.parts)
    bad = []
    with ThreadPoolExecutor(8) as ex:
        for m, (ok, out) in zip(mods, ex.map(tlc.sany, mods)):
            if not ok:
                bad.append((m, out[-1500:]))
    for m, out in bad:
        print(f"SANY failed on {m}:\n{out}", file=sys.stderr)
    if bad:
        return 2
    r = tlc.run("common/MC_BigNat", workers=4)
    if not r.ok:
        print("BigNat self-check failed", r.violation, r.error, file=sys.stderr)
        return 2
    print(f"setup ok: {len(mods)} modules parsed; BigNat self-check {r.distinct} states")
    return 0


if __name__ == "__main__":
    sys.exit(main())
