"""Parser for TLA+ values as printed by TLC (PrintT, -dump, counterexample states).

Supported: integers, strings, TRUE/FALSE, tuples <<..>>, sets {..}, records
[a |-> v, ..], functions (k :> v @@ k :> v), model values (bare identifiers),
intervals a..b (as Python range lists).  Result: int / str / bool / list (tuple) /
frozenset-as-list ("set" wrapper) / dict.
"""
from __future__ import annotations


class TlaSet(list):
    """A TLA+ set (kept as a list in printed order)."""


class ModelValue(str):
    """A bare identifier."""


class _P:
    def __init__(self, s: str, i: int = 0) -> None:
        self.s = s
        self.i = i

    def ws(self) -> None:
        s, n = self.s, len(self.s)
        while self.i < n and s[self.i] in " \t\r\n":
            self.i += 1

    def peek(self, k: int = 1) -> str:
        return self.s[self.i:self.i + k]

    def expect(self, tok: str) -> None:
        self.ws()
        if not self.s.startswith(tok, self.i):
            raise ValueError(
                f"expected {tok!r} at {self.i}: {self.s[self.i:self.i + 40]!r}")
        self.i += len(tok)

    def value(self):
        self.ws()
        v = self.atom()
        # function constructed with :> and @@
        self.ws()
        if self.peek(2) == ":>":
            d = {}
            k = v
            while True:
                self.expect(":>")
                val = self.atom_full()
                d[_key(k)] = val
                self.ws()
                if self.peek(2) == "@@":
                    self.i += 2
                    self.ws()
                    k = self.atom()
                    self.ws()
                else:
                    break
            return d
        if self.peek(2) == "..":
            self.i += 2
            hi = self.atom()
            return list(range(v, hi + 1))
        return v

    def atom_full(self):
        self.ws()
        return self.atom()

    def atom(self):
        self.ws()
        s = self.s
        c = s[self.i]
        if c == '"':
            j = self.i + 1
            out = []
            while s[j] != '"':
                if s[j] == "\\":
                    j += 1
                    ch = s[j]
                    out.append({"n": "\n", "t": "\t", "r": "\r", "f": "\f"}.get(ch, ch))
                else:
                    out.append(s[j])
                j += 1
            self.i = j + 1
            return "".join(out)
        if c == "<" and self.peek(2) == "<<":
            self.i += 2
            items = []
            self.ws()
            if self.peek(2) == ">>":
                self.i += 2
                return items
            while True:
                items.append(self.value())
                self.ws()
                if self.peek(2) == ">>":
                    self.i += 2
                    return items
                self.expect(",")
        if c == "{":
            self.i += 1
            items = TlaSet()
            self.ws()
            if self.peek() == "}":
                self.i += 1
                return items
            while True:
                items.append(self.value())
                self.ws()
                if self.peek() == "}":
                    self.i += 1
                    return items
                self.expect(",")
        if c == "[":
            self.i += 1
            d = {}
            self.ws()
            if self.peek() == "]":
                self.i += 1
                return d
            while True:
                self.ws()
                j = self.i
                while s[j].isalnum() or s[j] == "_":
                    j += 1
                name = s[self.i:j]
                self.i = j
                self.expect("|->")
                d[name] = self.value()
                self.ws()
                if self.peek() == "]":
                    self.i += 1
                    return d
                self.expect(",")
        if c == "(":
            self.i += 1
            v = self.value()
            self.expect(")")
            return v
        if c == "-" or c.isdigit():
            j = self.i + 1
            while j < len(s) and s[j].isdigit():
                j += 1
            v = int(s[self.i:j])
            self.i = j
            return v
        if c.isalpha() or c == "_":
            j = self.i
            while j < len(s) and (s[j].isalnum() or s[j] == "_"):
                j += 1
            name = s[self.i:j]
            self.i = j
            if name == "TRUE":
                return True
            if name == "FALSE":
                return False
            return ModelValue(name)
        raise ValueError(f"cannot parse at {self.i}: {s[self.i:self.i + 40]!r}")


def _key(k):
    if isinstance(k, list):
        return tuple(_key(x) for x in k)
    return k


def parse(text: str):
    """Parse one TLA+ value."""
    p = _P(text)
    v = p.value()
    p.ws()
    if p.i != len(p.s):
        raise ValueError(f"trailing text at {p.i}: {p.s[p.i:p.i + 40]!r}")
    return v


def parse_prefix(text: str, start: int = 0):
    """Parse one value starting at `start`; return (value, end index)."""
    p = _P(text, start)
    v = p.value()
    return v, p.i


def find_tagged(text: str, tag: str):
    """Yield every value of the form <<"tag", ...>> found anywhere in `text`.

    Works by bracket matching from each occurrence of the opening, so output of
    several workers interleaved at line granularity is still parsed.
    """
    import re
    pat = re.compile(r'<<\s*"' + re.escape(tag) + '"')
    pos = 0
    while True:
        m = pat.search(text, pos)
        if not m:
            return
        k = m.start()
        try:
            v, end = parse_prefix(text, k)
            yield v
            pos = end
        except (ValueError, IndexError):
            pos = m.end()


def parse_state(block: str) -> dict:
    r"""Parse a state printed as `/\ a = v \n /\ b = w` into a dict."""
    out = {}
    p = _P(block)
    while True:
        p.ws()
        if p.i >= len(p.s):
            break
        if p.peek(2) == "/\\":
            p.i += 2
        p.ws()
        j = p.i
        while j < len(p.s) and (p.s[j].isalnum() or p.s[j] == "_"):
            j += 1
        name = p.s[p.i:j]
        if not name:
            break
        p.i = j
        p.expect("=")
        out[name] = p.value()
    return out


if __name__ == "__main__":
    assert parse('<<"V", 3, "ok">>') == ["V", 3, "ok"]
    assert parse("[a |-> 1, b |-> <<1, 2>>]") == {"a": 1, "b": [1, 2]}
    assert parse("(1 :> 2 @@ 2 :> <<3>>)") == {1: 2, 2: [3]}
    assert parse("{1, 2}") == [1, 2]
    assert parse("-5") == -5
    assert parse_state("/\\ a = 1\n/\\ b = <<1>>\n") == {"a": 1, "b": [1]}
    print("ok")
