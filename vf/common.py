"""Environment set-up shared by all drivers: must be imported before numba/moptipyapps."""
import os
import sys
from pathlib import Path

ROOT = Path(__file__).resolve().parent.parent
GUARD = "MOPTIPYAPPS_VERIF"


def setup_env(boundscheck: bool = False) -> None:
    os.environ.setdefault("PYTHONHASHSEED", "0")
    os.environ[GUARD] = "1"
    cache = ROOT / ".work" / ("numba-bc" if boundscheck else "numba")
    cache.mkdir(parents=True, exist_ok=True)
    os.environ["NUMBA_CACHE_DIR"] = str(cache)
    if boundscheck:
        os.environ["NUMBA_BOUNDSCHECK"] = "1"
    else:
        os.environ.pop("NUMBA_BOUNDSCHECK", None)
    # the code under test is /repo's working tree; VERIF_REPO (used only by tools/try_seed_wt.sh to try a seeded
    # change in a scratch worktree while /repo is busy) may point to another checkout
    repo = os.environ.get("VERIF_REPO", "/repo")
    if repo not in sys.path:
        sys.path.insert(0, repo)


def seed_of(default: int = 1) -> int:
    try:
        return int(os.environ.get("VERIF_SEED", default))
    except ValueError:
        return default
