"""Drivers for the TSP subsystem."""
from __future__ import annotations

import random

import numpy as np

from .core import big, small

_M = {}


def mods():
    if not _M:
        from moptipyapps.tsp.ea1p1_revn import TSPEA1p1revn, rev_if_not_worse
        from moptipyapps.tsp.fea1p1_revn import TSPFEA1p1revn, rev_if_h_not_worse
        from moptipyapps.tsp.instance import Instance
        from moptipyapps.tsp.tour_length import TourLength, tour_length
        _M.update(Instance=Instance, TourLength=TourLength, tour_length=tour_length,
                  EA=TSPEA1p1revn, FEA=TSPFEA1p1revn, rev_ea=rev_if_not_worse,
                  rev_fea=rev_if_h_not_worse)
    return _M


def make_instance(M: list, lb: int = 0, name: str = "v", dtype=np.int64):
    return mods()["Instance"](name, lb, np.array(M, dtype=dtype))


def random_matrix(rng: random.Random, n: int, hi: int, sym: bool, zeros: float = 0.1) -> list:
    M = [[0] * n for _ in range(n)]
    for i in range(n):
        for j in range(n):
            if i != j:
                M[i][j] = 0 if rng.random() < zeros else rng.randint(1, hi)
    if sym:
        for i in range(n):
            for j in range(i):
                M[i][j] = M[j][i]
    for i in range(n):
        if max(M[i]) == 0:
            k = (i + 1) % n
            M[i][k] = rng.randint(1, hi)
            if sym:
                M[k][i] = M[i][k]
    return M


class StubProcess:
    """A duck-typed optimisation process: records every (x, y) handed to register/evaluate."""

    def __init__(self, inst, seed: int, budget: int, raw: bool = False) -> None:
        self.raw = raw       # keep the lengths as Python ints (instances with distances beyond 32 bits)
        self.inst = inst
        self.rng = np.random.default_rng(seed)
        self.budget = budget
        self.calls = 0
        self.trace = []
        self._tl = mods()["tour_length"]

    def get_random(self):
        return self.rng

    def create(self):
        return np.empty(self.inst.n_cities, dtype=np.int64)

    def evaluate(self, x):
        y = int(self._tl(self.inst, x))
        self.register(x, y)
        return y

    def register(self, x, y) -> None:
        self.calls += 1
        self.trace.append({"x": [small(int(v) + 1) for v in x], "y": int(y) if self.raw else small(int(y))})

    def should_terminate(self) -> bool:
        # the loop of the algorithms may spin without consuming evaluations (skipped moves);
        # bound the number of polls as well
        self._polls = getattr(self, "_polls", 0) + 1
        return self.calls >= self.budget or self._polls > 50 * self.budget + 1000

    def has_log(self) -> bool:
        return False

    def add_log_section(self, *_a, **_k) -> None:
        return None
