"""X03 (beyond the listed properties): the grouping of the 2D bin packing benchmark instances.

spec/binpack/Groups.tla is `__divide_based_on_size` (inclusive 3-quantiles of the item counts, exact arithmetic,
the loop of the code and the documented index side by side) and `_make_instance_groups` (a / beng / class / asqas
groups over names projected to records); MC_Groups.tla checks on all size sequences of the scope that the division
is an ordered partition by size (strictly smaller sizes in earlier groups, equal sizes together, no empty group,
name order kept inside a group), that the loop computes the documented index, that the cut points are monotone and
lie inside the data, and that distinct sizes fill all the groups.

Binding: the driver calls the real `_make_instance_groups` with random subsets of the shipped "a" and "beng"
instances (item counts read from the real resources), complete and incomplete lists of the other names and unknown
names, and the public `Instance.list_resources_groups()`; Trace_Groups.tla recomputes `MakeGroups` and compares
group by group.

Named deviations (no listed property is concerned, /repo untouched): the class and asqas groups are built from the
shipped list and not from the argument, so the function only accepts arguments that contain every shipped cl /
asqas name; a single "a" instance is refused by `statistics.quantiles` (Python 3.12: at least two data points).
"""
from __future__ import annotations

import random

from .. import core, tlc
from ..core import Report


def project(name: str) -> dict:
    if name.startswith("cl"):
        return {"kind": "cl", "x": int(name[2:4]), "y": int(name[5:8]), "z": int(name[9:11])}
    if name.startswith("asqas"):
        return {"kind": "asqas", "x": int(name[5:]), "y": 0, "z": 0}
    if name.startswith("beng"):
        return {"kind": "beng", "x": int(name[4:]), "y": 0, "z": 0}
    if name.startswith("a") and len(name) == 3:
        return {"kind": "a", "x": int(name[1:]), "y": 0, "z": 0}
    return {"kind": "other:" + name, "x": 0, "y": 0, "z": 0}


def one_case(cid: str, a: list, beng: list, rest: list, passed_rest: list, extra: list, public: bool = False) -> dict:
    from moptipyapps.binpacking2d import instance as mod
    from moptipyapps.binpacking2d.instance import Instance
    sizes = {n: int(Instance.from_resource(n).n_items) for n in a}
    rec = {"id": cid,
           "a": [{"num": int(n[1:]), "size": sizes[n]} for n in sorted(a)],
           "beng": [int(n[4:]) for n in sorted(beng)],
           "rest": [project(n) for n in sorted(rest)],
           "complete": 1 if (sorted(passed_rest) == sorted(rest) and not extra) else 0,
           "ok": 1, "got": [], "public": 1 if public else 0}
    args = list(a) + list(beng) + list(passed_rest) + list(extra)
    random.Random(len(args) * 7919 + len(cid)).shuffle(args)
    try:
        gs = Instance.list_resources_groups() if public else mod._make_instance_groups(tuple(args))
        rec["got"] = [{"top": g[0], "sub": "" if g[1] is None else g[1], "m": [project(n) for n in g[2]]} for g in gs]
    except ValueError as ex:
        rec["ok"] = 0
        rec["error"] = str(ex)[:120]
    return rec


def run(prop: str, tier: str, seed: int) -> int:
    from moptipyapps.binpacking2d.instance import Instance
    rep = Report(prop, tier, seed)
    rng = random.Random(seed * 7368787 + 303)
    ml, ms = (5, 5) if tier == "quick" else (6, 6)
    res = tlc.run("binpack/MC_Groups", cfg_text=f"SPECIFICATION Spec\nCONSTANTS MaxLen = {ml}\n MaxSize = {ms}\n D = 3\n"
                  "INVARIANT SortIsSorted\nINVARIANT CutsMonotone\nINVARIANT LoopIsCount\nINVARIANT Partition\n"
                  "INVARIANT OrderedBySize\nINVARIANT EqualSizesStayTogether\nINVARIANT DistinctFillAllGroups\n"
                  "INVARIANT MaxIsLast\nCHECK_DEADLOCK FALSE\n", workers=16, timeout=1800)
    rep.add_mc(f"MC_Groups MaxLen={ml} MaxSize={ms} D=3", res)
    res = tlc.run("binpack/MC_Groups", cfg_text="SPECIFICATION Spec\nCONSTANTS MaxLen = 4\n MaxSize = 4\n D = 4\n"
                  "INVARIANT CutsMonotone\nINVARIANT LoopIsCount\nINVARIANT Partition\nINVARIANT OrderedBySize\n"
                  "INVARIANT EqualSizesStayTogether\nINVARIANT MaxIsLast\nCHECK_DEADLOCK FALSE\n", workers=16, timeout=900)
    rep.add_mc("MC_Groups MaxLen=4 MaxSize=4 D=4", res)

    names = list(Instance.list_resources())
    a_all = [n for n in names if n.startswith("a") and len(n) == 3]
    b_all = [n for n in names if n.startswith("beng")]
    rest = [n for n in names if n not in a_all and n not in b_all]
    cases = [one_case("public", a_all, b_all, rest, rest, [], public=True),
             one_case("full", a_all, b_all, rest, rest, [])]
    for k in range({"quick": 60, "thorough": 600}[tier]):
        u = rng.random()
        na = rng.choice([0, 1, 2, 2, 3, 3, 4, 5, 6, 7, 9, 12, 20, 30, 43]) if u < 0.8 else rng.randint(0, 43)
        a = rng.sample(a_all, na)
        b = rng.sample(b_all, rng.choice([0, 1, 2, 5, 8, 9, 10]))
        v = rng.random()
        if v < 0.8:
            cases.append(one_case(f"sub-{k}", a, b, rest, rest, []))
        elif v < 0.9:
            drop = rng.choice(rest)
            cases.append(one_case(f"drop-{k}", a, b, rest, [n for n in rest if n != drop], []))
        else:
            cases.append(one_case(f"extra-{k}", a, b, rest, rest, [rng.choice(["zz01", "b01", "a001", "ab1"])]))
    n_ok = sum(c["ok"] for c in cases)
    rep.family("subsets of the shipped instance names", len(cases), len(cases))
    rep.notes.append(f"{n_ok} name lists grouped, {len(cases) - n_ok} refused")
    rep.nontrivial += len(cases)
    vs = core.validate("binpack/Trace_Groups", cases, shards=12)
    core.classify(rep, vs, {c["id"]: c for c in cases}, family="recorded")
    rep.traces += len(cases)
    rep.evaluations = len(cases)
    rep.samples.append({k: v for k, v in cases[2].items() if k != "rest"})
    rep.rule = ("the public list_resources_groups(), the full name list, and random subsets of the 43 'a' and 10 "
                "'beng' names (0..43 / 0..10, emphasis on 0..7) with the complete list of the other names, with one "
                "of them dropped, or with an unknown name added; non-trivial = all.")
    return core.finish(rep)


def replay(prop: str, case: dict) -> dict:
    rec = dict(case)
    rec["id"] = "replay"
    vs = core.validate("binpack/Trace_Groups", [rec])
    return {"clause": vs["replay"], "case": rec, "mode": "revalidated-recorded-case"}
