"""C18: TSPLIB text loads to the matrices the format prescribes; write/read round trip;
EUC_2D / CEIL_2D / ATT distances; shipped optimal tours have the documented length.

MC : spec/tsp/MC_Tsplib.tla - the four explicit formats are consistent (tokens -> matrix is the
     inverse of matrix -> tokens) for all small matrices; each distance predicate determines
     exactly one distance.
A  : every matrix of the scope, in all four formats, with EVERY line wrapping (n = 2, 3) fed to
     the real loader.
B  : random matrices in all formats with random wrappings and blank lines; to_stream ->
     _from_stream; random integer and quarter-valued point sets under EUC_2D / CEIL_2D / ATT;
     all shipped optimal tours (incl. the GEO instances).
"""
from __future__ import annotations

import itertools
import random

from .. import core, tlc
from .. import tsp as ts
from ..core import Report, small

FORMATS = ["FULL_MATRIX", "UPPER_ROW", "LOWER_DIAG_ROW", "UPPER_DIAG_ROW"]


def tokens_of(fmt: str, M: list) -> list:
    n = len(M)
    out = []
    for i in range(n):
        if fmt == "FULL_MATRIX":
            rng_ = range(n)
        elif fmt == "UPPER_ROW":
            rng_ = range(i + 1, n)
        elif fmt == "LOWER_DIAG_ROW":
            rng_ = range(i + 1)
        else:
            rng_ = range(i, n)
        out.extend(M[i][j] for j in rng_)
    return out


def wrap(tokens: list, breaks: set, blanks: set = frozenset()) -> list:
    """Lines of the data section: a line break after token k for k in breaks."""
    lines, cur = [], []
    for k, t in enumerate(tokens, 1):
        cur.append(str(t))
        if k in breaks or k == len(tokens):
            lines.append(" ".join(cur))
            if k in blanks:
                lines.append("")
            cur = []
    return lines


def load_text(lines: list):
    from moptipyapps.tsp.instance import _from_stream
    return _from_stream(iter(lines), None)


def explicit_text(name: str, n: int, fmt: str, sym: bool, data_lines: list) -> list:
    return [f"NAME: {name}", f"TYPE: {'TSP' if sym else 'ATSP'}", "COMMENT: verification case",
            f"DIMENSION: {n}", "EDGE_WEIGHT_TYPE: EXPLICIT", f"EDGE_WEIGHT_FORMAT: {fmt}",
            "EDGE_WEIGHT_SECTION", *data_lines, "EOF"]


def mat_of(inst) -> list:
    n = inst.n_cities
    return [[small(int(inst[i, j])) for j in range(n)] for i in range(n)]


def explicit_case(cid: str, M: list, fmt: str, breaks: set, blanks=frozenset(), diag=None) -> dict | None:
    n = len(M)
    sym = all(M[i][j] == M[j][i] for i in range(n) for j in range(n))
    D = [r[:] for r in M]
    if diag is not None:
        for i in range(n):
            D[i][i] = diag[i]
    toks = tokens_of(fmt, D)
    try:
        inst = load_text(explicit_text("v", n, fmt, sym, wrap(toks, breaks, blanks)))
    except ValueError as ex:
        return {"id": cid, "kind": "explicit", "n": n, "fmt": fmt, "M": M, "D": D, "tokens": toks,
                "loaded": [], "error": str(ex)[:200]}
    return {"id": cid, "kind": "explicit", "n": n, "fmt": fmt, "M": M, "D": D, "tokens": toks,
            "loaded": mat_of(inst)}


def scaled_case(cid: str, M: list, fmt: str | None, scale: int, rng: random.Random) -> dict:
    """Weights far beyond 32 bits: scale * M written by the driver in format fmt, or (fmt None) written by
    Instance.to_stream for the instance built from scale * M; loaded again."""
    from ..core import big
    n = len(M)
    sym = all(M[i][j] == M[j][i] for i in range(n) for j in range(n))
    rec = {"id": cid, "kind": "scaled", "what": "explicit" if fmt else "roundtrip", "n": n, "M": M,
           "bscale": big(scale), "ok": 1, "div_ok": 1, "loadedB": []}
    if fmt:
        toks = tokens_of(fmt, M)
        lines = explicit_text("v", n, fmt, sym, wrap([t * scale for t in toks],
                                                       {b for b in range(1, len(toks)) if rng.random() < 0.3}))
    else:
        inst = ts.make_instance([[v * scale for v in r] for r in M])
        lines = []
        inst.to_stream(lines.append)
        fmt, big_toks, in_data = "", [], False
        for ln in lines:
            st = ln.strip()
            if st.startswith("EDGE_WEIGHT_FORMAT"):
                fmt = st.split(":", 1)[1].strip()
            elif st == "EDGE_WEIGHT_SECTION":
                in_data = True
            elif st == "EOF":
                in_data = False
            elif in_data:
                big_toks.extend(int(t) for t in st.split())
        rec["div_ok"] = 1 if all(t % scale == 0 for t in big_toks) else 0
        toks = [t // scale for t in big_toks]
    rec.update(fmt=fmt, tokens=[small(t) for t in toks])
    try:
        back = load_text(lines)
        rec["loadedB"] = [[big(int(back[i, j])) if int(back[i, j]) >= 0 else [-1] for j in range(n)] for i in range(n)]
    except ValueError as ex:
        rec["ok"] = 0
        rec["error"] = str(ex)[:200]
    return rec


def roundtrip_case(cid: str, M: list, name: str) -> dict:
    inst = ts.make_instance(M, name=name)
    lines: list = []
    inst.to_stream(lines.append)
    fmt = ""
    toks = []
    in_data = False
    for ln in lines:
        s = ln.strip()
        if s.startswith("EDGE_WEIGHT_FORMAT"):
            fmt = s.split(":", 1)[1].strip()
        elif s == "EDGE_WEIGHT_SECTION":
            in_data = True
        elif s == "EOF":
            in_data = False
        elif in_data:
            toks.extend(int(t) for t in s.split())
    back = load_text(lines)
    return {"id": cid, "kind": "roundtrip", "n": len(M), "M": M, "fmt": fmt, "tokens": toks,
            "loaded": mat_of(back), "name_ok": 1 if back.name == inst.name == name else 0,
            "sym_in": 1 if inst.is_symmetric else 0, "sym_out": 1 if back.is_symmetric else 0}


def coords_case(cid: str, ewt: str, pts: list, sc: int) -> dict:
    def fmt(v: int) -> str:
        if sc == 1:
            return str(v)
        q, r = divmod(abs(v), sc)
        frac = {0: "0", 1: "25", 2: "5", 3: "75"}[r * 4 // sc] if sc == 4 else str(r * 10 // sc)
        return ("-" if v < 0 else "") + f"{q}.{frac}"
    lines = ["NAME: v", "TYPE: TSP", f"DIMENSION: {len(pts)}", f"EDGE_WEIGHT_TYPE: {ewt}", "NODE_COORD_SECTION"]
    for k, (x, y) in enumerate(pts, 1):
        lines.append(f"{k} {fmt(x)} {fmt(y)}")
    lines.append("EOF")
    inst = load_text(lines)
    return {"id": cid, "kind": "coords", "ewt": ewt, "sc": sc, "pts": [[small(x), small(y)] for x, y in pts],
            "loaded": mat_of(inst)}


def run(prop: str, tier: str, seed: int) -> int:
    rep = Report(prop, tier, seed)
    rng = random.Random(seed * 553105253 + 18)
    res = tlc.run("tsp/MC_Tsplib", cfg_text="SPECIFICATION Spec\nCONSTANTS N = 3\n MaxDist = 2\n MaxSq = 80\n"
                  "INVARIANT RoundTrip\nINVARIANT TokenCount\nINVARIANT Unique\n", workers=16, timeout=600)
    rep.add_mc("MC_Tsplib n=3 entries 0..2, squared distances 0..80", res)
    if tier == "thorough":
        res = tlc.run("tsp/MC_Tsplib", cfg_text="SPECIFICATION Spec\nCONSTANTS N = 4\n MaxDist = 1\n MaxSq = 200\n"
                      "INVARIANT RoundTrip\nINVARIANT TokenCount\nINVARIANT Unique\n", workers=16, timeout=900)
        rep.add_mc("MC_Tsplib n=4 entries 0..1, squared distances 0..200", res)
    cases = []
    # ---- (A) all matrices of the scope x formats x ALL wrappings
    n_a = 0
    for n in (2, 3):
        idx = [(i, j) for i in range(n) for j in range(n) if i != j]
        for combo in itertools.product(range(3), repeat=len(idx)):
            M = [[0] * n for _ in range(n)]
            for (i, j), v in zip(idx, combo):
                M[i][j] = v
            if any(max(r) == 0 for r in M):
                continue
            sym = all(M[i][j] == M[j][i] for i in range(n) for j in range(n))
            for fmt in FORMATS:
                if fmt != "FULL_MATRIX" and not sym:
                    continue
                toks = tokens_of(fmt, M)
                L = len(toks)
                all_breaks = [set(b) for r in range(L) for b in itertools.combinations(range(1, L), r)]
                if n == 3 and fmt == "FULL_MATRIX" and tier == "quick":
                    all_breaks = rng.sample(all_breaks, 6)
                elif len(all_breaks) > 64:
                    all_breaks = rng.sample(all_breaks, 64)
                for b in all_breaks:
                    dg = None if rng.random() < 0.6 else [rng.choice([0, 7, 9999]) for _ in range(n)]
                    cases.append(explicit_case(f"all-{len(cases)}", M, fmt, b, diag=dg))
                    n_a += 1
    rep.family("scope-matrices-x-formats-x-wrappings", n_a, n_a)
    rep.nontrivial += n_a
    rep.exhaustive = True
    # ---- (B)
    n_b = {"quick": 250, "thorough": 2500}[tier]
    for k in range(n_b):
        n = rng.randint(2, 9)
        hi = rng.choice([3, 50, 10 ** 4, 2 * 10 ** 9])
        fmt = rng.choice(FORMATS)
        M = ts.random_matrix(rng, n, hi, fmt != "FULL_MATRIX" or rng.random() < 0.4, zeros=0.1)
        toks = tokens_of(fmt, M)
        L = len(toks)
        style = rng.random()
        if style < 0.25:
            breaks = set(range(1, L))                       # one token per line
        elif style < 0.4:
            breaks = set()                                  # everything on one line
        else:
            breaks = {b for b in range(1, L) if rng.random() < rng.choice([0.1, 0.3, 0.6])}
        blanks = {b for b in breaks if rng.random() < 0.2}
        dg = None if rng.random() < 0.5 else [rng.choice([0, 1, 9999, 10 ** 6]) for _ in range(n)]
        cases.append(explicit_case(f"rand-{k}", M, fmt, breaks, blanks, diag=dg))
        rep.family("random-explicit", 1, 1)
        M2 = ts.random_matrix(rng, n, hi, rng.random() < 0.5, zeros=0.1)
        if rng.random() < 0.3 and n >= 3:      # nearly symmetric large weights
            M2 = ts.random_matrix(rng, n, 2 * 10 ** 9, True, zeros=0.0)
            i, j = rng.sample(range(n), 2)
            M2[i][j] = max(1, M2[j][i] - 1)
        cases.append(roundtrip_case(f"rt-{k}", M2, f"inst{k}x"))
        rep.family("write-read", 1, 1)
        ewt = rng.choice(["EUC_2D", "CEIL_2D", "ATT"])
        sc = rng.choice([1, 1, 4])
        m = rng.randint(2, 10)
        span = rng.choice([6, 40, 900])
        pts = []
        while len(pts) < m:
            p = (rng.randint(-span * sc, span * sc), rng.randint(-span * sc, span * sc))
            if p not in pts:
                pts.append(p)
        if rng.random() < 0.5:    # pairs whose squared distance sits on a boundary of the rounding rule
            base = pts[0]
            for dx, dy in ((1, 3), (2, 6), (3, 4), (0, 1), (1, 1), (3, 9)):
                q = (base[0] + dx * sc, base[1] + dy * sc)
                if q not in pts and len(pts) < 12:
                    pts.append(q)
            if sc == 4:
                q = (base[0] + 6, base[1])      # distance 1.5: exact half
                if q not in pts:
                    pts.append(q)
        if rng.random() < 0.3:    # cities that share their coordinates (distance 0 - but 1 under GEO)
            for _ in range(rng.randint(1, 3)):
                pts.insert(rng.randrange(len(pts) + 1), rng.choice(pts))
        try:
            cases.append(coords_case(f"pts-{k}", ewt, pts, sc))
            rep.family("coordinates", 1, 1)
            rep.nontrivial += 1
        except ValueError:
            pass      # all points coincide etc.: the instance constructor refuses zero rows
        if k % 10 == 0:           # GEO: only what is exact - coinciding cities
            gp = [(rng.randint(-80, 80), rng.randint(-170, 170)) for _ in range(rng.randint(2, 6))]
            for _ in range(rng.randint(1, 3)):
                gp.insert(rng.randrange(len(gp) + 1), rng.choice(gp))
            try:
                cases.append(coords_case(f"geo-{k}", "GEO", gp, 1))
                rep.family("coordinates(GEO, coinciding cities)", 1, 1)
                rep.nontrivial += 1
            except ValueError:
                pass
        rep.nontrivial += 2      # the explicit-format case and the write/read case (the coordinate case is counted below)
    # ---- weights far beyond 32 bits, in every explicit format and through the writer
    for k in range({"quick": 40, "thorough": 400}[tier]):
        n = rng.randint(2, 6)
        symm = rng.random() < 0.6
        M0 = [[0] * n for _ in range(n)]
        for i in range(n):
            for j in range(n):
                if i != j:
                    M0[i][j] = rng.randint(1, 9)
        if symm:
            for i in range(n):
                for j in range(i):
                    M0[i][j] = M0[j][i]
        scale = rng.choice([2 ** 31 - 1, 2 ** 31, 2 ** 32 + 22, 10 ** 10, 10 ** 11])
        fmt = rng.choice([None, "FULL_MATRIX"] + (["UPPER_ROW", "LOWER_DIAG_ROW", "UPPER_DIAG_ROW"] if symm else []))
        cases.append(scaled_case(f"large-weights-{k}", M0, fmt, scale, rng))
        rep.family("large-weights(explicit formats and writer)", 1, 1)
        rep.nontrivial += 1
    # ---- shipped optimal tours
    from moptipyapps.tsp.known_optima import list_resource_tours, opt_tour_from_resource
    I = ts.mods()["Instance"]
    for nm in list_resource_tours():
        inst = I.from_resource(nm)
        n = inst.n_cities
        if tier == "quick" and n > 300:
            continue
        tour = [int(v) for v in opt_tour_from_resource(nm)]
        edges = [small(int(inst[tour[k], tour[(k + 1) % len(tour)]])) for k in range(len(tour))] \
            if all(0 <= v < n for v in tour) else []
        cases.append({"id": f"tour-{nm}", "kind": "tour", "n": n, "tour": [v + 1 for v in tour],
                      "edges": edges, "opt": small(int(inst.tour_length_lower_bound))})
        rep.family("shipped-optimal-tours", 1, 1)
        rep.nontrivial += 1
    errs = [c for c in cases if "error" in c]
    for c in errs:
        rep.violations.append(core.Verdict(c["id"], "loader-rejects-valid-text:" + c["fmt"], c))
    cases = [c for c in cases if "error" not in c]
    vs = core.validate("tsp/Trace_Tsplib", cases, shards=14)
    core.classify(rep, vs, {c["id"]: c for c in cases}, family="recorded")
    rep.traces += len(cases)
    rep.evaluations = rep.traces
    rep.samples.append({k: v for k, v in cases[5].items()})
    rep.samples.append(next(c for c in cases if c["kind"] == "coords"))
    rep.rule = ("(a) every matrix n=2,3 over 0..2 x four formats x all (sampled beyond 64) line wrappings; (b) random "
                "matrices/formats/wrappings with blank lines, to_stream->_from_stream round trips (incl. nearly "
                "symmetric large weights), integer and quarter-valued points under EUC_2D/CEIL_2D/ATT incl. boundary "
                "pairs; (c) the shipped optimal tours. non-trivial = every case.")
    rep.assumptions = ["GEO distances are only exercised through the shipped GEO instances' optimal tours",
                       "explicit weights below 2^31 (TLC integers)"]
    return core.finish(rep)


def replay(prop: str, case: dict) -> dict:
    """Re-validate the recorded case against the specification (the record holds the input and what the real code
    returned for it; re-executing the code on exactly this input is what re-running the check with the same seed does)."""
    rec = dict(case)
    rec["id"] = "replay"
    vs = core.validate("tsp/Trace_Tsplib", [rec])
    return {"clause": vs["replay"], "case": rec, "mode": "revalidated-recorded-case"}
