"""X02 (beyond the listed properties): the robinX reader of the TTP instances.

spec/ttp/RobinX.tla is the reader as a fold over the elements of the document (first definition of a limit wins, a
second one is refused, defaults afterwards, the constructor's admission rules); MC_RobinX.tla checks on all
documents of up to 3 constraint elements over a small alphabet that what loads is admissible, that the order of
elements defining different values is irrelevant and that streak minima are at least 1.

Binding: the driver writes robinX documents (random team counts, distance matrices, constraint elements with and
without min / max, other modes, repeated definitions, unrelated elements, a numberRoundRobin element) and loads
them with the real `Instance.from_file`; Trace_RobinX.tla computes `Load(doc, n)` and compares: refused / loaded,
every limit, the distance matrix, the team names.

Named deviation (no listed property is concerned, /repo untouched): the reader compares the raw tag with
"numberroundrobin" while the documents spell it numberRoundRobin, so the element is ignored and every instance has
two rounds (all shipped instances have two).  ReadsRounds = FALSE is the reader as built; the trace specification
accepts the reader as built or as designed.
"""
from __future__ import annotations

import random
import shutil

import numpy as np

from .. import core, tlc
from ..core import Report, small


def make_doc(rng: random.Random) -> tuple:
    n = rng.choice([2, 4, 4, 6, 8])
    elems = []
    k = rng.randint(0, 5)
    for _ in range(k):
        u = rng.random()
        if u < 0.5:
            a = {"x": 0, "mode1": rng.choice([1, 1, 2, 2, 3]), "games": rng.choice([1, 1, 1, 0])}
            if rng.random() < 0.8:
                a["min"] = rng.choice([0, 0, 1, 2, 3])
            if rng.random() < 0.85:
                a["max"] = rng.choice([1, 2, 3, 3, 4, 7, 30])
            if rng.random() < 0.08:
                del a["games"]
            elems.append({"tag": "CA3", "a": a})
        elif u < 0.8:
            a = {"x": 0}
            if rng.random() < 0.8:
                a["min"] = rng.choice([0, 1, 1, 2, 5])
            if rng.random() < 0.7:
                a["max"] = rng.choice([0, 1, 3, 6, 11, 40])
            elems.append({"tag": "SE1", "a": a})
        elif u < 0.9:
            elems.append({"tag": "Other", "a": {"x": 0, "min": 9, "max": 9}})
        else:
            elems.append({"tag": "numberRoundRobin", "a": {"x": 0, "text": rng.choice([1, 2, 3])}})
    M = [[0 if i == j else rng.randint(1, 50) for j in range(n)] for i in range(n)]
    names = [f"T{i + 1}" for i in range(n)]
    rng.shuffle(names)
    return n, elems, M, names


def to_xml(name: str, n: int, elems: list, M: list, names: list, rng: random.Random) -> str:
    modes = {1: "H", 2: "A", 3: "HA"}
    rounds = [e for e in elems if e["tag"] == "numberRoundRobin"]
    out = ['<?xml version="1.0" encoding="UTF-8" standalone="no"?>', "<Instance><MetaData>",
           f"<InstanceName>{name}</InstanceName><DataType>A</DataType></MetaData>", "<Structure><Format leagueIds=\"0\">"]
    for e in rounds:
        out.append(f"<numberRoundRobin>{e['a']['text']}</numberRoundRobin>")
    out.append("<compactness>C</compactness></Format></Structure><Data><Distances>")
    pairs = [(i, j) for i in range(n) for j in range(n)]
    rng.shuffle(pairs)
    for i, j in pairs:
        if i == j and rng.random() < 0.5:
            continue
        out.append(f'<distance dist="{M[i][j]}" team1="{i}" team2="{j}"/>')
    out.append("</Distances></Data><Resources><Teams>")
    order = list(range(n))
    rng.shuffle(order)
    for i in order:
        out.append(f'<team id="{i}" league="0" name="{names[i]}" teamGroups="0"/>')
    out.append("</Teams></Resources><Constraints><CapacityConstraints>")
    for e in elems:
        a = e["a"]
        if e["tag"] == "CA3":
            at = [f'mode1="{modes[a["mode1"]]}"']
            if "games" in a:
                at.append('mode2="GAMES"' if a["games"] == 1 else 'mode2="SLOTS"')
            at += [f'{k}="{a[k]}"' for k in ("min", "max") if k in a]
            rng.shuffle(at)
            out.append(f'<CA3 intp="4" {" ".join(at)} penalty="1" type="HARD"/>')
        elif e["tag"] == "SE1":
            at = [f'{k}="{a[k]}"' for k in ("min", "max") if k in a]
            out.append(f'<SE1 {" ".join(at)} penalty="1" type="HARD"/>')
        elif e["tag"] == "Other":
            out.append('<CA1 max="9" min="9" mode="H" penalty="1" type="HARD"/>')
    out.append("</CapacityConstraints></Constraints></Instance>")
    return "".join(out)


def load_case(cid: str, n: int, elems: list, M: list, names: list, rng: random.Random, workdir) -> dict:
    from moptipyapps.ttp.instance import Instance
    # the specification sees the elements in document order: rounds elements first, then the constraints
    doc = [e for e in elems if e["tag"] == "numberRoundRobin"] + [e for e in elems if e["tag"] != "numberRoundRobin"]
    name = "x" + cid.replace("-", "")
    path = workdir / f"{name}.xml"
    path.write_text(to_xml(name, n, elems, M, names, rng))
    rec = {"id": cid, "n": n, "doc": doc, "ok": 1, "matrix_ok": 1, "names_ok": 1,
           "got": {k: 0 for k in ("rounds", "hmin", "hmax", "amin", "amax", "smin", "smax")}}
    try:
        inst = Instance.from_file(str(path))
        rec["got"] = {"rounds": small(inst.rounds), "hmin": small(inst.home_streak_min), "hmax": small(inst.home_streak_max),
                      "amin": small(inst.away_streak_min), "amax": small(inst.away_streak_max),
                      "smin": small(inst.separation_min), "smax": small(inst.separation_max)}
        rec["matrix_ok"] = 1 if np.asarray(inst).tolist() == M and inst.n_cities == n else 0
        rec["names_ok"] = 1 if list(inst.teams) == names and inst.name == name else 0
    except ValueError as ex:
        rec["ok"] = 0
        rec["error"] = str(ex.__cause__ or ex)[:160]
    return rec


def run(prop: str, tier: str, seed: int) -> int:
    rep = Report(prop, tier, seed)
    rng = random.Random(seed * 86028121 + 202)
    for rr in ("TRUE", "FALSE"):
        res = tlc.run("ttp/MC_RobinX", cfg_text=f"SPECIFICATION Spec\nCONSTANTS MaxLen = {2 if tier == 'quick' else 3}\n N = 4\n"
                      f" ReadsRounds = {rr}\nINVARIANT LoadedIsAdmissible\nINVARIANT OrderIrrelevant\n"
                      "INVARIANT MinimaAtLeastOne\n", workers=8, timeout=900)
        rep.add_mc(f"MC_RobinX ReadsRounds={rr}", res)
    work = tlc.work_dir("robinx")
    cases = []
    try:
        for k in range({"quick": 400, "thorough": 4000}[tier]):
            n, elems, M, names = make_doc(rng)
            cases.append(load_case(f"doc-{k}", n, elems, M, names, rng, work))
    finally:
        shutil.rmtree(work, ignore_errors=True)
    n_ok = sum(c["ok"] for c in cases)
    rep.family("driver-written robinX documents", len(cases), len(cases))
    rep.notes.append(f"{n_ok} documents loaded, {len(cases) - n_ok} refused")
    rep.nontrivial += len(cases)
    vs = core.validate("ttp/Trace_RobinX", cases, shards=8)
    core.classify(rep, vs, {c["id"]: c for c in cases}, family="recorded")
    rep.traces += len(cases)
    rep.evaluations = len(cases)
    rep.samples.append(cases[0])
    rep.rule = ("random documents: 2..8 teams, 0..5 constraint elements (CA3 with modes H / A / other, GAMES / other "
                "/ missing mode2, with and without min and max; SE1; unrelated elements; numberRoundRobin 1..3), "
                "shuffled distance and team elements; non-trivial = all.")
    return core.finish(rep)


def replay(prop: str, case: dict) -> dict:
    rec = dict(case)
    rec["id"] = "replay"
    vs = core.validate("ttp/Trace_RobinX", [rec])
    return {"clause": vs["replay"], "case": rec, "mode": "revalidated-recorded-case"}
