"""C15: the game-encoding search space has the right composition, and decoding puts each
game on the earliest day on which both teams are free (or drops it).

MC : spec/ttp/MC_Games.tla - decoder step machine over ALL sequences of L game codes.
A  : every terminal state replayed into the real map_games (dirty destination): equality.
B  : real blueprints for n = 2..16, rounds = 1..6 checked by TLC (BlueprintClause); random
     permutations of them (even and odd n) decoded by the real code and re-derived by TLC.
"""
from __future__ import annotations

import random

import numpy as np

from .. import core, tlc
from .. import ttp as tp
from ..core import Report, small


def _trace_cfg() -> str:
    return 'SPECIFICATION Spec\nCONSTANT Prop = "C15"\n'


def decode(x: list, days: int, n: int, rng: random.Random | None = None) -> list:
    y = np.empty((days, n), dtype=np.int64)
    if rng is not None:
        y[:, :] = np.array([[rng.randint(-n, n) for _ in range(n)] for _ in range(days)])
    else:
        y.fill(7)
    tp.mods()["map_games"](np.array(x, dtype=np.int64), y)
    return [[small(v) for v in row] for row in y.tolist()]


def run(prop: str, tier: str, seed: int) -> int:
    rep = Report(prop, tier, seed)
    rng = random.Random(seed * 67867979 + 15)
    scopes = {"quick": [(2, 2, 4), (3, 3, 4), (4, 3, 4)],
              "thorough": [(2, 3, 6), (3, 3, 5), (3, 6, 5), (4, 3, 5), (4, 6, 4), (5, 5, 4)]}[tier]
    n_gen = 0
    mism = []
    for n, days, L in scopes:
        cfg = ("SPECIFICATION Spec\nCONSTANTS N = %d\n DaysC = %d\n L = %d\nINVARIANT StepOK\n"
               "INVARIANT DoneAgrees\nPROPERTY Monotone\nPROPERTY DropOnlyIfFull\n" % (n, days, L))
        dump = tlc.work_dir("gen") / "games.dump"
        try:
            res = tlc.run("ttp/MC_Games", cfg_text=cfg, workers=16, timeout=900, dump=str(dump))
            rep.add_mc(f"MC_Games n={n} days={days} L={L}", res)
            for st in tlc.read_dump(dump, must_contain=f"k = {L + 1}"):
                if st["k"] != L + 1:
                    continue
                n_gen += 1
                real = decode(st["x"], days, n, rng)
                if real != st["plan"]:
                    mism.append({"id": f"gen-{n_gen}", "n": n, "rounds": 1, "days": days, "bp": [],
                                 "decodes": [{"x": st["x"], "plan": real}]})
                if len(rep.samples) < 2 and any(0 in r for r in st["plan"]) and n >= 3:
                    rep.samples.append({"family": "tlc-generated", "n": n, "days": days, "x": st["x"],
                                        "spec_plan": st["plan"], "real_plan": real})
        finally:
            import shutil
            shutil.rmtree(dump.parent, ignore_errors=True)
    if mism:
        vs = core.validate("ttp/Trace_TTP", mism[:300], cfg_text=_trace_cfg())
        core.classify(rep, vs, {c["id"]: c for c in mism[:300]}, family="tlc-generated")
        for c in mism[:300]:
            if not core.clauses_of(vs[c["id"]]):
                raise core.MachineryError(f"replay mismatch not confirmed by the trace spec: {c}")
    rep.family("tlc-generated-sequences", n_gen, n_gen)
    rep.nontrivial += n_gen
    rep.traces += n_gen
    rep.exhaustive = True

    # ---- (B) blueprints and random permutations
    ss = tp.mods()["ss"]
    cases = []
    max_n = {"quick": 16, "thorough": 16}[tier]
    reps = {"quick": 2, "thorough": 12}[tier]
    for n in range(2, max_n + 1):
        for r in range(1, 7):
            if (n, r) == (2, 1):
                continue
            space = ss(n, r)
            bp = [small(v) for v in space.blueprint]
            days = (n - 1) * r if n % 2 == 0 else n * r
            decs = []
            for _ in range(reps if n <= 10 else max(1, reps // 2)):
                x = bp[:]
                rng.shuffle(x)
                if rng.random() < 0.3:    # nearly sorted: many games collide on early days
                    x = sorted(x)
                    i, j = rng.randrange(len(x)), rng.randrange(len(x))
                    x[i], x[j] = x[j], x[i]
                decs.append({"x": x, "plan": decode(x, days, n, rng)})
            cases.append({"id": f"bp-{n}-{r}", "n": n, "rounds": r, "days": days, "bp": bp, "decodes": decs})
            rep.family("real-blueprints", 1, 1)
            rep.family("random-permutations", len(decs), len(decs))
            rep.nontrivial += 1 + len(decs)
    # tight day budgets: fewer days than needed, so that games must be dropped
    for k in range({"quick": 120, "thorough": 900}[tier]):
        n = rng.randint(3, 9)
        r = rng.randint(1, 3)
        bp = [small(v) for v in ss(n, r).blueprint]
        days = rng.randint(1, max(1, (n - 1) * r))
        x = bp[:]
        rng.shuffle(x)
        cases.append({"id": f"tight-{k}", "n": n, "rounds": r, "days": days, "bp": [],
                      "decodes": [{"x": x, "plan": decode(x, days, n, rng)}]})
        rep.family("tight-day-budget", 1, 1)
        rep.nontrivial += 1
    # through the public objects: GameEncoding(instance) decoding into GamePlan(instance) / the space's own plan,
    # for instances with 1, 2, 3 and 4 rounds - the plan must have (n - 1) * rounds days, the encoding's search space
    # must hold every pairing `rounds` times (also when it is asked again after the instance's rounds were changed,
    # as the library's own doctest does)
    m = tp.mods()
    for k in range({"quick": 60, "thorough": 500}[tier]):
        n = rng.choice([2, 4, 4, 6, 8])
        r = rng.choice([1, 1, 2, 3, 3, 4])
        if k == 1:          # 128 teams: the team ids -128..128 no longer fit into 8 bits
            n, r = 128, 1
        if (n, r) == (2, 1):
            r = 3         # one game only: moptipy's permutation space wants at least two different values
        inst = tp.make_instance(n, r)
        enc = m["GameEncoding"](inst)
        space = enc.search_space()
        bp = [small(v) for v in space.blueprint]
        x = bp[:]
        rng.shuffle(x)
        y = m["GamePlan"](inst) if rng.random() < 0.5 else m["GamePlanSpace"](inst).create()
        y[:, :] = np.array([[rng.randint(-n, n) for _ in range(n)] for _ in range(y.shape[0])]) if y.shape[0] else 0
        enc.decode(np.array(x, dtype=np.int64), y)
        c = {"id": f"public-{k}", "n": n, "rounds": r, "days": small(int(y.shape[0])), "bp": bp if n < 100 else [],
             "real": 1, "light": 1 if n >= 100 else 0,
             "decodes": [{"x": x, "plan": [[small(v) for v in row] for row in np.asarray(y).tolist()]}]}
        cases.append(c)
        if k % 3 == 0:      # the same encoding object after the number of rounds of its instance was changed
            r2 = rng.choice([q for q in (1, 2, 3, 4) if q != r and (n, q) != (2, 1)])
            old = inst.rounds
            try:
                inst.rounds = r2
                bp2 = [small(v) for v in enc.search_space().blueprint]
            finally:
                inst.rounds = old
            cases.append({"id": f"public-{k}-rounds-changed", "n": n, "rounds": r2, "days": (n - 1) * r2, "bp": bp2,
                          "decodes": []})
        rep.family("public objects (GameEncoding / GamePlan, rounds 1..4)", 1, 1)
        rep.nontrivial += 1
    # many teams: the shipped instances have up to 40 teams; word sizes (32, 64) and the int8 edge of team ids
    big_n = {"quick": [31, 32, 33, 34, 40, 64, 65], "thorough": [31, 32, 33, 34, 36, 40, 63, 64, 65, 66, 127, 128, 129]}[tier]
    for n in big_n:
        for v in range(2 if n <= 66 else 1):
            bp = [small(x) for x in ss(n, 1).blueprint]
            days = (n - 1) if n % 2 == 0 else n
            x = bp[:]
            rng.shuffle(x)
            if v == 1:          # games of the highest-numbered teams first
                x.sort(reverse=True)
                for _ in range(n):
                    i, j = rng.randrange(len(x)), rng.randrange(len(x))
                    x[i], x[j] = x[j], x[i]
            cases.append({"id": f"many-teams-{n}-{v}", "n": n, "rounds": 1, "days": days, "bp": bp if v == 0 else [],
                          "decodes": [{"x": x, "plan": decode(x, days, n, rng)}]})
            rep.family("many-teams(31..129)", 1, 1)
            rep.nontrivial += 1
    vs = core.validate("ttp/Trace_TTP", cases, cfg_text=_trace_cfg(), shards=14)
    core.classify(rep, vs, {c["id"]: c for c in cases}, family="recorded")
    rep.traces += sum(len(c["decodes"]) + (1 if c["bp"] else 0) for c in cases)
    rep.evaluations = rep.traces
    if cases:
        c = cases[20]
        rep.samples.append({"family": "real-blueprint", "n": c["n"], "rounds": c["rounds"], "blueprint": c["bp"][:40],
                            "first_decode": c["decodes"][0] if c["decodes"] else None})
    rep.rule = ("(a) all sequences of L game codes for the scopes " + str(scopes) + " (n, days, L), decoder step "
                "machine in TLC, terminal states replayed into map_games on a dirty destination; (b) the real "
                "blueprints for n=2..16 x rounds=1..6 and shuffled / nearly sorted permutations of them, plus "
                "day budgets too small for all games. non-trivial = every case (distinct inputs).")
    return core.finish(rep)


def replay(prop: str, case: dict) -> dict:
    rec = dict(case)
    rec["id"] = "replay"
    if case["bp"]:
        rec["bp"] = [small(v) for v in tp.mods()["ss"](case["n"], case["rounds"]).blueprint]
    rec["decodes"] = [{"x": d["x"], "plan": decode(d["x"], case["days"], case["n"])} for d in case["decodes"]]
    vs = core.validate("ttp/Trace_TTP", [rec], cfg_text=_trace_cfg())
    return {"clause": vs["replay"], "case": rec}
