"""X01 (beyond the listed properties): the bin-packing resource loader is a history-dependent cache.

`Instance.from_resource` keeps state on the function object (the built instances, the text of the resource file
while not everything has been built, a counter).  spec/binpack/ResourceCache.tla is that state machine; TLC checks
for every history of requests over N = 2..4 names and all kinds of non-names that names are always served (built
once, then the very same object), non-names are refused, a hit changes nothing, the cache only grows and the text
is dropped only when everything is built.

Binding: the real function is run on a stand-in resource (the module's `resources` and `_INSTANCES` are swapped for
a small in-memory file; the function's own attributes are cleared before every history), for ALL histories up to a
length and random longer ones, including `list_resources`-sized sweeps of the real resource in the thorough tier.
After every call the outcome (identity of the returned object, its compact string against the resource line, the
exception) and the kept state are recorded; Trace_Resource.tla replays the history through ResourceStep!Step.

Named deviations (not listed properties, /repo left untouched): (1) `got = got + 1` is compared with the number of
instances but never stored, so the text is never dropped for N >= 2 (constant StoresCounter = FALSE = as built; the
design with TRUE is model-checked too).  (2) For a query above the last name the binary search
starts one line too far and the code raises IndexError instead of ValueError('not found') - modelled as outcome
"overrun".
"""
from __future__ import annotations

import io
import itertools
import random

from .. import core, tlc
from ..core import Report


class _FakeFiles:
    def __init__(self, text: str) -> None:
        self.text = text
        self.opened = 0

    def files(self, _pkg):
        return self

    def joinpath(self, _name):
        return self

    def open(self, *_a, **_k):
        self.opened += 1
        return io.StringIO(self.text)


class Bench:
    """The real from_resource on a stand-in resource with n instances."""

    def __init__(self, n: int, rng: random.Random) -> None:
        import moptipyapps.binpacking2d.instance as im
        self.im = im
        self.n = n
        # query number q -> string; sorted order of the strings = numeric order; names are the even q in 2..2n
        self.qstr = [f"q{q:02d}" for q in range(2 * n + 3)]
        self.lines = {}
        for k in range(1, n + 1):
            W, H = rng.randint(3, 30), rng.randint(3, 30)
            items = sorted([rng.randint(1, W), rng.randint(1, H), rng.randint(1, 4)] for _ in range(rng.randint(1, 4)))
            inst = im.Instance(self.qstr[2 * k], W, H, items)
            self.lines[2 * k] = inst.to_compact_str()
        self.text = "\n".join(self.lines[2 * k] for k in range(1, n + 1)) + "\n\n"

    def __enter__(self):
        im = self.im
        self.saved = (im.resources, im._INSTANCES)
        self.fake = _FakeFiles(self.text)
        im.resources = self.fake
        im._INSTANCES = tuple(self.qstr[2 * k] for k in range(1, self.n + 1))
        self.reset()
        return self

    def __exit__(self, *_a):
        self.reset()
        self.im.resources, self.im._INSTANCES = self.saved

    def reset(self) -> None:
        fr = self.im.Instance.from_resource
        for a in [a for a in vars(fr) if a.startswith("__inst_q") or a.startswith("__text_") or a == "__total_insts"]:
            delattr(fr, a)
        self.seen = {}

    def history(self, qs: list) -> list:
        self.reset()
        fr = self.im.Instance.from_resource
        ev = []
        for q in qs:
            try:
                obj = fr(self.qstr[q])
                if q in self.seen and obj is self.seen[q]:
                    out = "hit"
                elif q in self.lines and obj.name == self.qstr[q] and obj.to_compact_str() == self.lines[q]:
                    out = "built"
                    self.seen[q] = obj
                else:
                    out = "wrong-object"
            except ValueError as ex:
                out = "notfound" if "not found" in str(ex) else "other:ValueError"
            except IndexError:
                out = "overrun"
            except Exception as ex:   # noqa: BLE001 - whatever the code under test raises is an observation
                out = f"other:{type(ex).__name__}"
            text = 1 if any(a.startswith("__text_") for a in vars(fr)) else 0
            ev.append({"q": q, "out": out, "text": text, "total": int(getattr(fr, "__total_insts", 0)),
                       "name": self.qstr[q]})
        return ev


def run(prop: str, tier: str, seed: int) -> int:
    rep = Report(prop, tier, seed)
    rng = random.Random(seed * 7368787 + 101)
    for n, sc in [(n, sc) for n in ([1, 2, 3] if tier == "quick" else [1, 2, 3, 4]) for sc in ("FALSE", "TRUE")]:
        cfg = (f"SPECIFICATION Spec\nCONSTANT N = {n}\nCONSTANT StoresCounter = {sc}\nINVARIANT TypeOK\nINVARIANT Served\nINVARIANT MissesAreNonNames\n"
               "INVARIANT OverrunOnlyAbove\nINVARIANT AboveAlwaysOverruns\nINVARIANT CounterSound\n"
               "PROPERTY CacheMonotone\nPROPERTY HitsArePure\n" + ("INVARIANT DroppedWhenComplete\n" if sc == "TRUE" else ""))
        rep.add_mc(f"ResourceCache N={n} StoresCounter={sc}", tlc.run("binpack/ResourceCache", cfg_text=cfg, workers=4, timeout=600))
    # the documented non-theorem must stay refuted (vacuity guard: the model really re-reads the text)
    res = tlc.run("binpack/ResourceCache", cfg_text="SPECIFICATION Spec\nCONSTANT N = 2\nCONSTANT StoresCounter = TRUE\n"
                                                      "INVARIANT TextGoneForGood\n",
                  workers=1, timeout=600)
    if not res.violation:
        raise tlc.MachineryError("ResourceCache: TextGoneForGood should be violated (text is re-read for a non-name)")
    rep.notes.append("TextGoneForGood is refuted by TLC as documented (build all, then ask for a non-name)")
    res = tlc.run("binpack/ResourceCache", cfg_text="SPECIFICATION Spec\nCONSTANT N = 2\nCONSTANT StoresCounter = FALSE\n"
                                                      "INVARIANT DroppedWhenComplete\n", workers=1, timeout=600)
    if not res.violation:
        raise tlc.MachineryError("ResourceCache: as built (counter never stored) DroppedWhenComplete should be refuted")
    rep.notes.append("as built the counter is never written back: DroppedWhenComplete is refuted for N = 2 (named "
                     "deviation; the text stays in memory, nothing a caller can observe through the API)")
    cases = []
    depth = {"quick": 4, "thorough": 5}[tier]
    for n in (2, 3):
        with Bench(n, rng) as b:
            qs_all = list(range(2 * n + 3))
            for L in range(1, depth + 1):
                for qs in itertools.product(qs_all, repeat=L):
                    if L == depth and rng.random() > (0.25 if n == 3 else 1.0):
                        continue
                    cases.append({"id": f"all-{n}-{len(cases)}", "n": n, "events": b.history(list(qs))})
    n_all = len(cases)
    rep.family(f"all-histories(length<={depth})", n_all, n_all)
    for k in range({"quick": 300, "thorough": 3000}[tier]):
        n = rng.randint(1, 9)
        with Bench(n, rng) as b:
            L = rng.randint(n, 4 * n + 6)
            pool = list(range(2 * n + 3))
            qs = [rng.choice(pool) for _ in range(L)]
            if rng.random() < 0.6:      # make sure everything gets built, in some order, with misses in between
                names = [2 * k for k in range(1, n + 1)]
                rng.shuffle(names)
                for q in names:
                    qs.insert(rng.randrange(len(qs) + 1), q)
            cases.append({"id": f"rand-{k}", "n": n, "events": b.history(qs)})
    rep.family("random-histories(n<=9)", len(cases) - n_all, len(cases) - n_all)
    rep.nontrivial += len(cases)
    vs = core.validate("binpack/Trace_Resource", cases, shards=8)
    core.classify(rep, vs, {c["id"]: c for c in cases}, family="recorded")
    rep.traces += len(cases)
    rep.evaluations = sum(len(c["events"]) for c in cases)
    rep.samples.append(cases[-1])
    rep.rule = ("all request histories up to the stated length over 2 and 3 names and every kind of non-name (below, "
                "between, above), random longer histories over up to 9 names; every call of every history must be "
                "the Request action of ResourceCache.tla (outcome, object identity, kept text, counter).")
    return core.finish(rep)


def replay(prop: str, case: dict) -> dict:
    # the stand-in resource content is irrelevant to the verdict (only names matter): re-run the same queries
    rng = random.Random(1)
    with Bench(case["n"], rng) as b:
        rec = {"id": "replay", "n": case["n"], "events": b.history([e["q"] for e in case["events"]])}
    vs = core.validate("binpack/Trace_Resource", [rec])
    return {"clause": vs["replay"], "case": rec}
