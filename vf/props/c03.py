"""C03: the lower bound on the number of bins is at least the area bound and never
exceeds the bins of a feasible packing (rotation allowed).

MC+A: spec/binpack/PackSearch.tla decides, by exhaustive reachability, the exact optimum
      of EVERY instance of the small scope; an optimal packing per instance is the witness
      that the real bounds (Instance.lower_bound_bins, BinCount.lower_bound(),
      InstanceSpace.min_bins) are checked against by TLC (Trace_LB).
B   : instances whose optimum is bounded by construction - random guillotine dissections
      of k bins (with trims, dropped pieces, rotated declarations) with the dissection as
      witness - and decoder outputs / arbitrary feasible layouts of random, dense,
      degenerate and shipped instances as witnesses.
"""
from __future__ import annotations

import random

from .. import binpack as bp
from .. import core, tlc
from ..core import Report, small
from .c02 import random_layout


def bounds_of(inst) -> list:
    from moptipyapps.binpacking2d.instgen.instance_space import InstanceSpace
    from moptipyapps.binpacking2d.objectives.bin_count import BinCount
    lbs = [small(int(inst.lower_bound_bins)), small(int(BinCount(inst).lower_bound()))]
    try:
        lbs.append(small(int(InstanceSpace(inst).min_bins)))
    except ValueError:
        pass   # InstanceSpace has its own (narrower) admission rules for templates
    return lbs


def result_bounds_of(inst, k: int = 3) -> list:
    """The bin bounds that every PackingResult record carries (a third place computing the area bound)."""
    from moptipyapps.binpacking2d import packing_result as pr
    out = []
    for key in ("bins.lowerBound", "bins.lowerBound.geometric", "bins.lowerBound.damv")[:k]:
        out.append(small(int(pr._DEFAULT_BOUNDS[key](inst))))
    return out


def record_bounds_of(inst, wit: list, fallback: list) -> tuple:
    """The bin bounds in the PackingResult derived for the first witness packing; (bounds, error)."""
    if not wit:
        return fallback, None
    try:
        bb = bp.result_record(inst, wit[0]["rows"], wit[0]["nb"]).bin_bounds
        return [small(int(bb[k])) for k in ("bins.lowerBound", "bins.lowerBound.geometric", "bins.lowerBound.damv")], None
    except (ValueError, TypeError, KeyError) as ex:
        return fallback, f"{type(ex).__name__}: {str(ex)[:200]}"


def attach_records(rep: Report, cases: list) -> None:
    """The bounds inside the PackingResult records the library derives for the witnesses, in the order of the cases
    (instance names repeat: nothing remembered from an earlier instance may leak into a later record)."""
    n_rec = 0
    for c in cases:
        if c.get("wit") and len(c["items"]) and not c["id"].startswith("huge") and "plbs" not in c:
            inst_c = bp.make_instance(c["W"], c["H"], c["items"])
            c["plbs"], err = record_bounds_of(inst_c, c["wit"], [])
            n_rec += 1
            if err is not None:
                rep.violations.append(core.Verdict(c["id"], "result-record-rejects-feasible-packing",
                                                   {**c, "error": err}))
    rep.family("result-records-of-witness-packings", n_rec, n_rec)


def guillotine(rng: random.Random, max_side: int, k: int, cuts: int, exact: int = 0):
    """k bins dissected by guillotine cuts; returns (W, H, items, witness_rows, k').
    exact = s > 0: no trims, no drops, every coordinate scaled by s - the pieces tile the k bins completely and all
    sides are multiples of s, so sums of piece areas are exact multiples of the bin area."""
    W, H = rng.randint(1, max_side), rng.randint(1, max_side)
    if exact:
        W, H = max(W, 2), max(H, 2)
    pieces = [[b, 0, 0, W, H] for b in range(1, k + 1)]        # bin, l, b, r, t
    for _ in range(cuts):
        cand = [p for p in pieces if (p[3] - p[1] > 1) or (p[4] - p[2] > 1)]
        if not cand:
            break
        p = rng.choice(cand)
        # prefer cuts close to the border now and then: produces items larger than half a bin
        vert = (p[3] - p[1] > 1) and ((p[4] - p[2] <= 1) or rng.random() < 0.5)
        if vert:
            lo, hi = p[1] + 1, p[3] - 1
            c = rng.choice([lo, hi, rng.randint(lo, hi), (lo + hi) // 2, (lo + hi + 1) // 2 + (1 if hi > (lo + hi + 1) // 2 else 0)])
            c = max(lo, min(hi, c))
            q = [p[0], c, p[2], p[3], p[4]]
            p[3] = c
        else:
            lo, hi = p[2] + 1, p[4] - 1
            c = rng.choice([lo, hi, rng.randint(lo, hi), (lo + hi) // 2, (lo + hi + 1) // 2 + (1 if hi > (lo + hi + 1) // 2 else 0)])
            c = max(lo, min(hi, c))
            q = [p[0], p[1], c, p[3], p[4]]
            p[4] = c
        pieces.append(q)
    # trims and drops keep packability
    out = []
    for p in pieces:
        u = 1.0 if exact else rng.random()
        if u < 0.08 and len(pieces) > k:
            continue                                   # piece dropped (bin may become empty)
        if u < 0.25 and p[3] - p[1] > 1:
            p[3] -= rng.randint(1, p[3] - p[1] - 1)
        elif u < 0.40 and p[4] - p[2] > 1:
            p[4] -= rng.randint(1, p[4] - p[2] - 1)
        out.append(p)
    if not out:
        out = [pieces[0]]
    if exact:
        W, H = W * exact, H * exact
        out = [[p[0]] + [v * exact for v in p[1:]] for p in out]
    used = sorted({p[0] for p in out})
    ren = {b: i + 1 for i, b in enumerate(used)}
    types = {}
    order = []
    rows = []
    for p in out:
        w, h = p[3] - p[1], p[4] - p[2]
        key = (w, h)
        if rng.random() < 0.5 and (h <= W and w <= H or True):
            # declare the item rotated (allowed: the packing may rotate it back)
            if (h, w) in types or rng.random() < 0.5:
                key = (h, w)
        if key not in types:
            if (key[1], key[0]) in types:
                key = (key[1], key[0])
            else:
                types[key] = 0
                order.append(key)
        types[key] += 1
        rows.append([order.index(key) + 1, ren[p[0]], p[1], p[2], p[3], p[4]])
    items = [[kk[0], kk[1], types[kk]] for kk in order]
    rng.shuffle(rows)
    return W, H, items, rows, len(used)


def run(prop: str, tier: str, seed: int) -> int:
    rep = Report(prop, tier, seed)
    rng = random.Random(seed * 32452843 + 3)

    consts = {"quick": {"MaxSide": 3, "MaxTypes": 2, "MaxRep": 2, "MaxN": 3},
              "thorough": {"MaxSide": 3, "MaxTypes": 2, "MaxRep": 2, "MaxN": 4}}[tier]
    cfg = "SPECIFICATION Spec\nCONSTANTS\n" + "".join(f"  {k} = {v}\n" for k, v in consts.items()) \
        + "INVARIANT DoneFeasible\nINVARIANT AreaBound\n"
    dump = tlc.work_dir("gen") / "search.dump"
    cases = []
    try:
        res = tlc.run("binpack/PackSearch", cfg_text=cfg, workers=16, timeout=3000, dump=str(dump))
        rep.add_mc(f"PackSearch: exact optimum by reachability {consts}", res)
        best = {}
        n_term = 0
        for st in tlc.read_dump(dump, must_contain='pc = "done"'):
            if st["pc"] != "done":
                continue
            n_term += 1
            i = st["inst"]
            key = (i["W"], i["H"], tuple(map(tuple, i["items"])))
            cur = best.get(key)
            if cur is None or st["nb"] < cur[0]:
                best[key] = (st["nb"], st["rows"])
        for key, (opt, rows) in best.items():
            inst = bp.make_instance(key[0], key[1], [list(t) for t in key[2]])
            cases.append({"id": f"opt-{len(cases)}", **bp.inst_record(inst), "lbs": bounds_of(inst), "rlbs": result_bounds_of(inst),
                          "wit": [{"rows": rows, "nb": opt}], "opt": opt})
        rep.notes.append(f"{n_term} terminal packings over {len(best)} instances; optimum = least bins")
    finally:
        import shutil
        shutil.rmtree(dump.parent, ignore_errors=True)
    attach_records(rep, cases)
    vs = core.validate("binpack/Trace_LB", cases, shards=14)
    core.classify(rep, vs, {c["id"]: c for c in cases}, family="tlc-optimum")
    tight = sum(1 for c in cases if c["lbs"][0] == c["opt"])
    rep.family("tlc-exact-optimum", len(cases), sum(1 for c in cases if c["opt"] >= 2))
    rep.nontrivial += sum(1 for c in cases if c["opt"] >= 2)
    rep.notes.append(f"bound tight (= optimum) on {tight} of {len(cases)} scope instances")
    rep.traces += len(cases)
    rep.exhaustive = True
    if cases:
        c = max(cases, key=lambda q: q["opt"])
        rep.samples.append({"family": "tlc-exact-optimum", "W": c["W"], "H": c["H"], "items": c["items"],
                            "optimum": c["opt"], "real_bounds": c["lbs"], "optimal_packing": c["wit"][0]["rows"]})

    # ---- (B)
    n_g = {"quick": 1500, "thorough": 15000}[tier]
    n_o = {"quick": 200, "thorough": 1500}[tier]
    cases = []
    seen = set()
    for k in range(n_g):
        kb = rng.choice([1, 1, 2, 2, 3, 4, 5])
        if k % 5 == 4:     # bins tiled completely by pieces whose sides are multiples of s (often equal squares)
            W, H, items, rows, kk = guillotine(rng, rng.choice([2, 2, 3, 4]), kb, rng.choice([3, 6, 10, 40]),
                                               exact=rng.choice([1, 2, 5, 7]))
        else:
            W, H, items, rows, kk = guillotine(rng, rng.choice([4, 6, 10, 16, 30]), kb, rng.randint(0, 14))
        try:
            inst = bp.make_instance(W, H, items)
        except ValueError as ex:
            raise core.MachineryError(f"guillotine instance rejected: {W}x{H} {items}: {ex}")
        rec = {"id": f"guillotine-{k}", **bp.inst_record(inst), "lbs": bounds_of(inst), "rlbs": result_bounds_of(inst),
               "wit": [{"rows": rows, "nb": kk}]}
        cases.append(rec)
        key = (W, H, str(sorted(map(tuple, items))))
        nt = 1 if (kk >= 2 and key not in seen) else 0
        seen.add(key)
        rep.family("guillotine", 1, nt)
        rep.nontrivial += nt
        if nt and sum(1 for s in rep.samples if s.get("family") == "guillotine") < 2:
            rep.samples.append({"family": "guillotine", "W": W, "H": H, "items": items, "bins": kk,
                                "real_bounds": rec["lbs"], "witness": rows})
    for k in range(n_o):
        u = rng.random()
        try:
            if u < 0.4:
                inst, fam = bp.make_instance(*bp.fam_random(rng, 14, 5, 3, 14)), "random"
            elif u < 0.7:
                inst, fam = bp.make_instance(*bp.fam_dense(rng)), "dense"
            elif u < 0.9:
                inst, fam = bp.make_instance(*bp.fam_degenerate(rng)), "degenerate"
            else:
                inst, fam = bp.fam_shipped(rng, 40), "shipped"
        except ValueError:
            continue
        wit = []
        for _ in range(3):
            if rng.random() < 0.7:
                st = bp.decode_fresh(inst, rng.choice([1, 2]), bp.random_perm(inst, rng))
                wit.append({"rows": st["rows"], "nb": st["nb"]})
            else:
                rows, nb = random_layout(inst, rng, 0.05)
                wit.append({"rows": rows, "nb": nb})
        cases.append({"id": f"{fam}-{k}", **bp.inst_record(inst), "lbs": bounds_of(inst), "rlbs": result_bounds_of(inst), "wit": wit})
        rep.family(fam, 1, 0)
    # total item areas beyond 2^53 (exact integer ceiling needed); no witness: only the area clause
    for k in range({"quick": 2, "thorough": 6}[tier]):
        W = rng.randint(2_000_000_000, 2_140_000_000)
        H = rng.randint(4_600_000, 5_200_000)
        kb = rng.randint(1, 3)
        items = [[W, 1, kb * H], [1, 1, 1]]     # area = kb bins + 1: the area bound is kb + 1
        try:
            inst = bp.make_instance(W, H, items)
        except ValueError as ex:
            rep.notes.append(f"huge-area instance skipped: {str(ex)[:100]}")
            continue
        cases.append({"id": f"huge-area-{k}", **bp.inst_record(inst), "lbs": bounds_of(inst)[:2], "rlbs": result_bounds_of(inst, 2), "wit": []})
        rep.family("area-beyond-2^53", 1, 1)
        rep.nontrivial += 1
    attach_records(rep, cases)
    vs = core.validate("binpack/Trace_LB", cases, shards=14)
    core.classify(rep, vs, {c["id"]: c for c in cases}, family="recorded")
    rep.traces += len(cases)
    rep.evaluations = rep.traces
    rep.rule = ("(a) every instance of the TLC scope " + str(consts) + " (item types as sorted multisets) with its "
                "exact optimum found by exhaustive reachability; (b) seeded guillotine dissections of k bins "
                "(optimum <= k by construction, witness checked by TLC) and real packings as witnesses. "
                "non-trivial = distinct instances whose witness uses >= 2 bins.")
    rep.assumptions = ["the least bin count over PackSearch's terminal states is the optimum (all positions, all "
                       "orientations, bins opened in order, items placed in type order)"]
    return core.finish(rep)


def replay(prop: str, case: dict) -> dict:
    inst = bp.make_instance(case["W"], case["H"], case["items"])
    rec = {"id": "replay", **bp.inst_record(inst), "lbs": bounds_of(inst), "rlbs": result_bounds_of(inst), "wit": case["wit"]}
    mode = "re-executed"
    if case.get("wit"):
        rec["plbs"], err = record_bounds_of(inst, case["wit"], [])
        mode = ("re-executed (one instance in a fresh process: what the library remembers between the records of "
                "different instances is only exercised by the full run)")
        if err is not None:
            return {"clause": "result-record-rejects-feasible-packing", "case": {**rec, "error": err}, "mode": mode}
    vs = core.validate("binpack/Trace_LB", [rec])
    return {"clause": vs["replay"], "case": rec, "mode": mode}
