"""C09: QAP objective = sum of flow x distance, independent of the storage type, within the
instance bounds; QAPLIB text loads to exactly what it lists under any line wrapping.

MC : spec/qap/MC_QAP.tla - all 2x2 (3x3 over 0..1 thorough) matrix pairs x permutations:
     rearrangement bounds enclose the value; BigNat = native; token stream inverts.
A  : the same scope through Instance/QAPObjective; n = 1, 2 texts in ALL wrappings.
B  : random matrices n <= 8 whose upper bound sits at a storage edge (127/128, 255/256, ...,
     2^32, just below 10^15), several input dtypes (narrow ones included), random wrappings
     with blank lines, shipped instances with random permutations.
"""
from __future__ import annotations

import itertools
import random

import numpy as np

from .. import core, tlc
from ..core import Report, big, small

_M = {}


def mods():
    if not _M:
        from moptipyapps.qap.instance import Instance
        from moptipyapps.qap.objective import QAPObjective
        _M.update(Instance=Instance, Obj=QAPObjective)
    return _M


def eval_case(cid: str, F: list, D: list, perms: list, dtype=np.int64, user_lb=None, user_ub=None,
              inst=None) -> dict | None:
    m = mods()
    n = len(F)
    if inst is None:
        inst = m["Instance"](np.array(D, dtype=dtype), np.array(F, dtype=dtype), user_lb, user_ub)
    obj = m["Obj"](inst)

    def mat(a):
        return [[big(int(a[i, j])) if int(a[i, j]) >= 0 else [-1] for j in range(n)] for i in range(n)]
    rec = {"id": cid, "kind": "eval", "n": n, "F": [[big(v) for v in r] for r in F],
           "D": [[big(v) for v in r] for r in D], "sF": mat(inst.flows), "sD": mat(inst.distances),
           "dtype": str(inst.flows.dtype), "perms": []}
    if user_lb is not None:
        rec["ulb"] = big(user_lb)     # bounds handed to the constructor by the caller (valid ones: TLC re-checks)
    if user_ub is not None:
        rec["uub"] = big(user_ub)
    lo, hi = int(obj.lower_bound()), int(obj.upper_bound())
    if lo < 0 or hi < 0:      # outside the domain of the specification (sums of naturals)
        rec["neg_bounds"] = [lo, hi]
        lo, hi = max(lo, 0), max(hi, 0)
    rec["lb"], rec["ub"] = big(lo), big(hi)
    for p in perms:
        v = obj.evaluate(np.array(p, dtype=np.int64))
        vi = int(v)
        rec["perms"].append({"p": [q + 1 for q in p], "val": big(vi) if vi >= 0 and vi == v else [-1]})
    return rec


def big_case(cid: str, n: int, rng: random.Random) -> dict:
    """n facilities with entries 0..3: all values fit native integers (see Trace_QAP!BigN)."""
    m = mods()
    F = [[rng.randint(0, 3) if rng.random() < 0.5 else 0 for _ in range(n)] for _ in range(n)]
    D = [[rng.randint(0, 3) for _ in range(n)] for _ in range(n)]
    inst = m["Instance"](np.array(D, dtype=np.int64), np.array(F, dtype=np.int64))
    obj = m["Obj"](inst)
    perms = []
    for v in range(2):
        p = list(range(n))
        if v == 0:
            rng.shuffle(p)
        else:
            p.reverse()
        perms.append({"p": [q + 1 for q in p], "val": small(int(obj.evaluate(np.array(p, dtype=np.int64))))})
    return {"id": cid, "kind": "big", "n": n, "F": F, "D": D,
            "sF": [[small(int(v)) for v in r] for r in inst.flows.tolist()],
            "sD": [[small(int(v)) for v in r] for r in inst.distances.tolist()],
            "lb": small(int(obj.lower_bound())), "ub": small(int(obj.upper_bound())), "perms": perms,
            "dtype": str(inst.flows.dtype)}


def text_lines(n: int, F: list, D: list, breaks: set, blanks=frozenset()) -> list:
    toks = [n] + [v for r in F for v in r] + [v for r in D for v in r]
    lines, cur = [], []
    for k, t in enumerate(toks, 1):
        cur.append(str(t))
        if k in breaks or k == len(toks):
            lines.append(" ".join(cur))
            if k in blanks:
                lines.append("   ")
            cur = []
    return lines


def parse_case(cid: str, n: int, F: list, D: list, breaks: set, blanks=frozenset()) -> dict:
    lines = text_lines(n, F, D, breaks, blanks)
    rec = {"id": cid, "kind": "parse", "n": n, "F": F, "D": D, "lines": lines}
    try:
        inst = mods()["Instance"].from_qaplib_stream(iter(lines))
        rec.update(ok=1, ln=small(inst.n),
                   lF=[[small(int(v)) for v in r] for r in inst.flows.tolist()],
                   lD=[[small(int(v)) for v in r] for r in inst.distances.tolist()])
    except ValueError as ex:
        rec.update(ok=0, ln=0, lF=[], lD=[], error=str(ex)[:160])
    return rec


EDGES = [127, 128, 255, 256, 32767, 32768, 65535, 65536, 2 ** 31 - 1, 2 ** 31, 2 ** 32 - 1, 2 ** 32,
         10 ** 12, 10 ** 15 - 1]


def scaled_pair(rng: random.Random, n: int, target: int):
    """Flow/distance matrices whose trivial upper bound is close to (and not above) `target`."""
    F = [[rng.randint(0, 9) for _ in range(n)] for _ in range(n)]
    D = [[rng.randint(0, 9) for _ in range(n)] for _ in range(n)]
    if rng.random() < 0.5:
        for i in range(n):
            F[i][i] = 0
            D[i][i] = 0
    F[0][n - 1] = max(F[0][n - 1], 1)
    D[n - 1][0] = max(D[n - 1][0], 1)

    def ub(F, D):
        f = sorted(v for r in F for v in r)
        d = sorted(v for r in D for v in r)
        return sum(a * b for a, b in zip(f, d))
    u = ub(F, D)
    if u == 0:
        return F, D
    # scale one large entry up so that the bound approaches the target
    k = max(1, target // u)
    if rng.random() < 0.5:
        F = [[v * k for v in r] for r in F]
    else:
        s = max(1, int(k ** 0.5))
        F = [[v * s for v in r] for r in F]
        D = [[v * max(1, k // s) for v in r] for r in D]
    for _ in range(60):
        u = ub(F, D)
        if u > target:
            i, j = rng.randrange(n), rng.randrange(n)
            if F[i][j] > 0:
                F[i][j] -= max(1, F[i][j] // 7)
        elif target - u > max(1, target // 200):
            i, j = rng.randrange(n), rng.randrange(n)
            F[i][j] += 1
        else:
            break
    return F, D


def run(prop: str, tier: str, seed: int) -> int:
    rep = Report(prop, tier, seed)
    rng = random.Random(seed * 15485867 + 9)
    scopes = {"quick": [(2, 2)], "thorough": [(2, 3), (3, 1)]}[tier]
    cases = []
    n_gen = 0
    for n, mv in scopes:
        cfg = (f"SPECIFICATION Spec\nCONSTANTS N = {n}\n MaxV = {mv}\nINVARIANT BoundsEnclose\nINVARIANT BigAgrees\n"
               "INVARIANT TextInverts\n")
        dump = tlc.work_dir("gen") / "qap.dump"
        try:
            res = tlc.run("qap/MC_QAP", cfg_text=cfg, workers=16, timeout=900, dump=str(dump))
            rep.add_mc(f"MC_QAP n={n} entries 0..{mv}", res)
            groups = {}
            for st in tlc.read_dump(dump):
                key = (tuple(map(tuple, st["F"])), tuple(map(tuple, st["D"])))
                groups.setdefault(key, []).append([v - 1 for v in st["p"]])
            for (F, D), perms in groups.items():
                try:
                    cases.append(eval_case(f"gen-{len(cases)}", [list(r) for r in F], [list(r) for r in D], perms))
                except ValueError as ex:
                    rep.violations.append(core.Verdict(f"gen-{len(cases)}", "constructor-rejects-valid-matrices",
                                                       {"F": F, "D": D, "error": str(ex)[:200]}))
                n_gen += len(perms)
        finally:
            import shutil
            shutil.rmtree(dump.parent, ignore_errors=True)
    rep.family("tlc-generated-matrix-pairs-x-permutations", n_gen, n_gen)
    rep.nontrivial += n_gen
    rep.exhaustive = True
    # all wrappings for n = 1, 2
    n_w = 0
    for n in (1, 2):
        for _ in range(3 if n == 2 else 2):
            F = [[rng.randint(0, 30) for _ in range(n)] for _ in range(n)]
            D = [[rng.randint(0, 30) for _ in range(n)] for _ in range(n)]
            L = 1 + 2 * n * n
            for r in range(L):
                for b in itertools.combinations(range(1, L), r):
                    cases.append(parse_case(f"wrap-{len(cases)}", n, F, D, set(b)))
                    n_w += 1
    rep.family("all-wrappings-n<=2", n_w, n_w)
    rep.nontrivial += n_w
    # ---- (B)
    n_b = {"quick": 300, "thorough": 2500}[tier]
    for k in range(n_b):
        n = rng.randint(1, 8)
        target = rng.choice(EDGES) + rng.choice([-1, 0, 0, 1])
        target = min(max(target, 1), 10 ** 15 - 1)
        F, D = scaled_pair(rng, n, target)
        hi = max(max(max(r) for r in F), max(max(r) for r in D))
        cand = [np.int64, np.uint64]
        if hi < 2 ** 31:
            cand += [np.int32, np.uint32]
        if hi < 2 ** 15:
            cand += [np.int16, np.uint16]
        if hi < 2 ** 7:
            cand += [np.int8, np.uint8]
        if n <= 4:
            perms = [list(p) for p in itertools.permutations(range(n))]
        else:
            perms = []
            for _ in range(6):
                p = list(range(n))
                rng.shuffle(p)
                perms.append(p)
        try:
            cases.append(eval_case(f"edge-{k}", F, D, perms, dtype=rng.choice(cand)))
            rep.family("storage-edge-bounds", len(perms), len(perms))
            rep.nontrivial += len(perms)
        except ValueError as ex:
            rep.violations.append(core.Verdict(f"edge-{k}", "constructor-rejects-valid-matrices",
                                               {"F": F, "D": D, "error": str(ex)[:200]}))
        if n >= 1 and hi < 2 ** 31:
            L = 1 + 2 * n * n
            style = rng.random()
            breaks = set(range(1, L)) if style < 0.2 else (set() if style < 0.3 else
                                                            {b for b in range(1, L) if rng.random() < rng.choice([0.15, 0.4])})
            if style >= 0.3 and rng.random() < 0.5:
                breaks.add(1)      # the conventional layout: n on its own line
            blanks = {b for b in breaks if rng.random() < 0.2}
            cases.append(parse_case(f"text-{k}", n, F, D, breaks, blanks))
            rep.family("random-wrappings", 1, 1)
            rep.nontrivial += 1
    # ---- caller-supplied bounds: the constructor combines them with the rearrangement bounds
    n_u = {"quick": 120, "thorough": 900}[tier]
    for k in range(n_u):
        n = rng.randint(2, 5)
        target = rng.choice([60, 127, 128, 255, 256, 1000, 32767, 32768, 65536, 2 ** 31, 10 ** 9])
        F, D = scaled_pair(rng, n, target)
        perms = [list(p) for p in itertools.permutations(range(n))]
        vals = [sum(F[i][j] * D[p[i]][p[j]] for i in range(n) for j in range(n)) for p in perms]
        lo, hi = min(vals), max(vals)
        kind = rng.choice(["both", "both", "lower", "upper"])
        ulb = max(0, lo - rng.choice([0, 0, 1, rng.randint(0, max(1, lo))])) if kind != "upper" else None
        uub = hi + rng.choice([0, 0, 1, rng.randint(0, max(1, hi))]) if kind != "lower" else None
        try:
            cases.append(eval_case(f"userbounds-{k}", F, D, perms, user_lb=ulb, user_ub=uub))
            rep.family("caller-supplied-bounds", len(perms), len(perms))
            rep.nontrivial += len(perms)
        except (ValueError, TypeError) as ex:
            rep.violations.append(core.Verdict(f"userbounds-{k}", "constructor-rejects-valid-bounds",
                                               {"F": F, "D": D, "lower_bound": ulb, "upper_bound": uub,
                                                "true_min": lo, "true_max": hi, "error": str(ex)[:200]}))
    I = mods()["Instance"]
    for nm in (list(I.list_resources())[:: (12 if tier == "quick" else 2)]):
        inst = I.from_resource(nm)
        n = inst.n
        if n > 40:
            continue
        F = [[int(v) for v in r] for r in inst.flows.tolist()]
        D = [[int(v) for v in r] for r in inst.distances.tolist()]
        perms = []
        for _ in range(3):
            p = list(range(n))
            rng.shuffle(p)
            perms.append(p)
        # the shipped instance itself: its bounds include the published optimum / best lower bound
        cases.append(eval_case(f"shipped-{nm}", F, D, perms, inst=inst))
        rep.family("shipped-matrices", len(perms), len(perms))
    # every shipped instance, whatever its size: the values the real objective reports for the identity, the
    # reversal and a random permutation lie inside the bounds the loaded instance declares (the truth of reported
    # values is what the "eval" cases above establish; this family is about the bounds from_resource attaches)
    for nm in I.list_resources():
        inst = I.from_resource(nm)
        obj = mods()["Obj"](inst)
        n = inst.n
        ps = [list(range(n)), list(range(n - 1, -1, -1)), list(range(n))]
        rng.shuffle(ps[2])
        vals = [int(obj.evaluate(np.array(q, dtype=np.int64))) for q in ps]
        lo, hi = int(obj.lower_bound()), int(obj.upper_bound())
        cases.append({"id": f"shipped-bounds-{nm}", "kind": "bounds", "n": n, "lb": big(max(lo, 0)), "ub": big(max(hi, 0)),
                      "vals": [big(v) if v >= 0 else [-1] for v in vals], "neg": 1 if (lo < 0 or hi < 0) else 0})
        rep.family("shipped-declared-bounds", 3, 3)
    # many facilities (index storage beyond the 8-bit ranges; the shipped instances go up to 256)
    for n in ([129, 257] if tier == "quick" else [127, 128, 129, 255, 256, 257]):
        cases.append(big_case(f"many-facilities-{n}", n, rng))
        rep.family("many-facilities(127..257)", 2, 2)
        rep.nontrivial += 2
    for c in cases:
        if "neg_bounds" in c:
            rep.violations.append(core.Verdict(c["id"], "declared-bound-negative", c))
    vs = core.validate("qap/Trace_QAP", cases, shards=14)
    core.classify(rep, vs, {c["id"]: c for c in cases}, family="recorded")
    rep.traces += sum(len(c.get("perms", [1])) for c in cases)
    rep.evaluations = rep.traces
    rep.samples.append({k: v for k, v in next(c for c in cases if c["id"].startswith("edge")).items()})
    rep.samples.append({k: v for k, v in next(c for c in cases if c["kind"] == "parse" and len(c["lines"]) > 2).items()})
    rep.rule = ("(a) all matrix pairs/permutations of the TLC scope " + str(scopes) + "; all line wrappings of texts "
                "with n = 1, 2; (b) seeded matrix pairs whose rearrangement upper bound sits at a storage-type edge, "
                "various input dtypes, random wrappings; shipped instances. non-trivial = every permutation / text.")
    return core.finish(rep)


def replay(prop: str, case: dict) -> dict:
    if "kind" not in case:       # a constructor rejection: hand the same matrices (and bounds) to the constructor again
        try:
            mods()["Instance"](np.array(case["D"], dtype=np.int64), np.array(case["F"], dtype=np.int64),
                               case.get("lower_bound"), case.get("upper_bound"))
            return {"clause": "ok", "case": case}
        except (ValueError, TypeError) as ex:
            return {"clause": "constructor-rejects-valid-" + ("bounds" if "true_min" in case else "matrices"),
                    "case": {**case, "error": str(ex)[:200]}}
    if case["kind"] == "bounds":      # reported values vs declared bounds: re-validate the recorded case
        rec = dict(case)
        rec["id"] = "replay"
        vs = core.validate("qap/Trace_QAP", [rec])
        return {"clause": vs["replay"], "case": rec, "mode": "revalidated-recorded-case"}
    if case["kind"] == "parse":
        breaks = set()
        k = 0
        for ln in case["lines"][:-1]:
            k += len(ln.split())
            if ln.strip():
                breaks.add(k)
        rec = parse_case("replay", case["n"], case["F"], case["D"], breaks)
    else:
        F = [[core.unbig(v) for v in r] for r in case["F"]]
        D = [[core.unbig(v) for v in r] for r in case["D"]]
        inst = None
        if case["id"].startswith("shipped-"):
            inst = mods()["Instance"].from_resource(case["id"][len("shipped-"):])
        rec = eval_case("replay", F, D, [[q - 1 for q in e["p"]] for e in case["perms"]],
                        user_lb=core.unbig(case["ulb"]) if "ulb" in case else None,
                        user_ub=core.unbig(case["uub"]) if "uub" in case else None, inst=inst)
    vs = core.validate("qap/Trace_QAP", [rec])
    return {"clause": vs["replay"], "case": rec}
