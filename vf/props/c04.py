"""C04: PackingSpace.validate accepts exactly the feasible packings; from_str(to_str(y))
returns an equal packing and validates.

MC+A: spec/binpack/Validate.tla - every decoder output of the small scope with every
      single (thorough: double) cell/bin-count corruption is a TLC state whose expected
      verdict TLC computes; all of them are fed to the real validator.
B   : semantic corruptions (shift, resize, swap ids, move to other bin, bin gaps, wrong
      count, one-side-only dimension match, wrong dtype/shape) of larger real packings,
      plus huge-bin instances, judged by Trace_Validate.
"""
from __future__ import annotations

import random

import numpy as np

from .. import binpack as bp
from .. import core, tlc
from ..core import Report, small
from .c02 import random_layout


class Validator:
    def __init__(self, inst) -> None:
        from moptipyapps.binpacking2d.packing_space import PackingSpace
        self.inst = inst
        self.space = PackingSpace(inst)

    def test(self, rows: list, nb: int, *, roundtrip: bool = True, wrong: str = "") -> dict:
        P = bp._mods()["Packing"]
        inst = self.inst
        y = P(inst)
        info = np.iinfo(y.dtype)
        arr = np.array(rows, dtype=np.int64).reshape(-1, 6)
        if arr.min() < info.min or arr.max() > info.max:
            raise core.MachineryError("corruption does not fit the storage type")
        if arr.min() < -core.INT_MAX or arr.max() > core.INT_MAX or abs(int(nb)) > core.INT_MAX:
            raise core.MachineryError("corruption does not fit TLC's native integers")
        shape_ok, dtype_ok = 1, 1
        if wrong == "dtype":
            other = np.int64 if y.dtype != np.int64 else np.int32
            y = np.empty(y.shape, dtype=other).view(P)
            y.instance = inst
            dtype_ok = 0
        elif wrong == "shape":
            y = np.empty((inst.n_items + 1, 6), dtype=inst.dtype).view(P)
            y.instance = inst
            arr = np.vstack([arr, arr[-1:]])
            shape_ok = 0
        y[:, :] = arr
        y.n_bins = int(nb)
        try:
            self.space.validate(y)
            accepted = 1
        except (ValueError, TypeError):
            accepted = 0
        rt = {"ok": -1, "rows": [], "nb": 0}
        if roundtrip and not wrong:
            try:
                txt = self.space.to_str(y)
                z = self.space.from_str(txt)
                rt = {"ok": 1, "rows": bp.rows_of(z), "nb": small(int(z.n_bins))}
            except (ValueError, TypeError):
                rt = {"ok": 0, "rows": [], "nb": 0}
        return {"rows": [[small(v) for v in r] for r in rows], "nb": small(nb),
                "shape_ok": shape_ok, "dtype_ok": dtype_ok, "accepted": accepted, "rt": rt}


def wrong_length_texts(v: "Validator", rows: list, nb: int, rng: random.Random) -> list:
    """The text of a (feasible) packing with numbers appended or cut off, handed to from_str."""
    P = bp._mods()["Packing"]
    y = P(v.inst)
    y[:, :] = np.array(rows, dtype=np.int64).reshape(-1, 6)
    y.n_bins = int(nb)
    base = v.space.to_str(y)
    nums = [t for t in base.replace("\n", ";").split(";") if t.strip() != ""]
    sep = ";" if ";" in base else " "
    out = []
    for kind in ("extra-row", "extra-number", "twice", "one-short"):
        if kind == "extra-row":
            toks = nums + nums[-6:]
        elif kind == "extra-number":
            toks = nums + [rng.choice(["1", "0", nums[0]])]
        elif kind == "twice":
            toks = nums + nums
        else:
            toks = nums[:-1]
        try:
            v.space.from_str(sep.join(toks))
            acc = 1
        except (ValueError, TypeError):
            acc = 0
        out.append({"count": len(toks), "accepted": acc, "kind": kind})
    return out


def corrupt(inst, rows: list, nb: int, rng: random.Random) -> tuple:
    """One semantic corruption; returns (rows, nb, kind)."""
    rows = [r[:] for r in rows]
    n = len(rows)
    W, H = int(inst.bin_width), int(inst.bin_height)
    hi = int(np.iinfo(inst.dtype).max)
    i = rng.randrange(n)
    r = rows[i]
    kind = rng.choice(["shift", "shift-out", "resize", "one-side", "swap-id", "id-zero", "id-big",
                       "other-bin", "bin-gap", "bin-zero", "nb", "rotate", "degenerate", "dup",
                       "negative", "none", "transpose-pos"])
    if kind == "shift":
        d = rng.choice([-3, -2, -1, 1, 2, 3])
        if rng.random() < 0.5:
            r[2] += d
            r[4] += d
        else:
            r[3] += d
            r[5] += d
    elif kind == "shift-out":
        if rng.random() < 0.5:
            d = W - r[4] + rng.randint(1, 2)
            r[2] += d
            r[4] += d
        else:
            d = H - r[5] + rng.randint(1, 2)
            r[3] += d
            r[5] += d
    elif kind == "resize":
        j = rng.choice([4, 5])
        r[j] += rng.choice([-2, -1, 1, 2])
    elif kind == "one-side":
        # keep exactly one side equal to a side of the item, make the other arbitrary
        tid = r[0] if 1 <= r[0] <= inst.n_different_items else 1     # (an earlier corruption may have broken the id)
        w, h = int(inst[tid - 1, 0]), int(inst[tid - 1, 1])
        if rng.random() < 0.5:
            r[4] = r[2] + h
            r[5] = r[3] + rng.randint(1, max(1, H))
        else:
            r[5] = r[3] + w
            r[4] = r[2] + rng.randint(1, max(1, W))
    elif kind == "swap-id":
        j = rng.randrange(n)
        rows[i][0], rows[j][0] = rows[j][0], rows[i][0]
    elif kind == "id-zero":
        r[0] = 0
    elif kind == "id-big":
        r[0] = inst.n_different_items + rng.randint(1, 2)
    elif kind == "other-bin":
        r[1] = rng.randint(1, max(1, nb) + 1)     # (nb may already be a corrupted, non-positive count)
    elif kind == "bin-gap":
        b = rng.randint(1, max(1, nb))
        for q in rows:
            if q[1] >= b:
                q[1] += 1
        if rng.random() < 0.5:
            nb = nb + 1
    elif kind == "bin-zero":
        for q in rows:
            q[1] -= 1
    elif kind == "nb":
        # (-1 is what a freshly created Packing stores for "not assigned yet")
        nb = rng.choice([nb - 1, nb + 1, nb + 2, -1, -1, 0, -nb, -2])
    elif kind == "rotate":
        w, h = r[4] - r[2], r[5] - r[3]
        r[4], r[5] = r[2] + h, r[3] + w
    elif kind == "degenerate":
        if rng.random() < 0.5:
            r[4] = r[2]
        else:
            r[2], r[4] = r[4], r[2]
    elif kind == "dup":
        j = rng.randrange(n)
        rows[i] = rows[j][:]
    elif kind == "negative":
        r[rng.choice([2, 3])] = -1
    elif kind == "transpose-pos":
        r[2], r[3] = r[3], r[2]
        r[4], r[5] = r[5], r[4]
    for q in rows:
        for j in range(6):
            q[j] = max(-hi - 1, min(hi, q[j]))
    return rows, nb, kind


def run(prop: str, tier: str, seed: int) -> int:
    rep = Report(prop, tier, seed)
    rng = random.Random(seed * 15485863 + 4)

    # ---- (MC + A)
    consts = {"quick": {"MaxSide": 2, "MaxTypes": 2, "MaxRep": 2, "MaxN": 3, "MaxC": 1},
              "thorough": {"MaxSide": 3, "MaxTypes": 2, "MaxRep": 2, "MaxN": 3, "MaxC": 1}}[tier]
    cfg = "SPECIFICATION Spec\nCONSTANTS\n" + "".join(f"  {k} = {v}\n" for k, v in consts.items()) \
        + "INVARIANT DecodedFeasible\nINVARIANT AreaArgument\nINVARIANT BinsLeItems\n"
    dump = tlc.work_dir("gen") / "validate.dump"
    n_gen = n_rej = 0
    try:
        res = tlc.run("binpack/Validate", cfg_text=cfg, workers=16, timeout=3000, dump=str(dump))
        rep.add_mc(f"Validate: decoder outputs + corruptions {consts}", res)
        # expected verdicts: computed by TLC through the trace spec in batches (the dump
        # carries inputs only; the clause is evaluated by TLC, never by Python)
        vals = {}
        by_inst = {}
        for st in tlc.read_dump(dump):
            i = st["inst"]
            key = (i["W"], i["H"], tuple(map(tuple, i["items"])))
            by_inst.setdefault(key, []).append((st["rows"], st["nb"]))
        cases = []
        for key, lst in by_inst.items():
            inst = bp.make_instance(key[0], key[1], [list(t) for t in key[2]])
            v = vals[key] = Validator(inst)
            tests = []
            for rows, nb in lst:
                try:
                    tests.append(v.test(rows, nb))
                except core.MachineryError:
                    continue
                n_gen += 1
                n_rej += 1 - tests[-1]["accepted"]
            for k in range(0, len(tests), 200):
                cases.append({"id": f"gen-{len(cases)}", **bp.inst_record(inst), "tests": tests[k:k + 200]})
        vs = core.validate("binpack/Trace_Validate", cases, shards=14)
        core.classify(rep, vs, {c["id"]: c for c in cases}, family="tlc-generated")
        if cases:
            rep.samples.append({"family": "tlc-generated", "W": cases[-1]["W"], "H": cases[-1]["H"],
                                "items": cases[-1]["items"], "test": cases[-1]["tests"][-1]})
    finally:
        import shutil
        shutil.rmtree(dump.parent, ignore_errors=True)
    rep.family("tlc-generated-corruptions", n_gen, n_rej)
    rep.traces += n_gen
    rep.nontrivial += n_rej
    rep.exhaustive = True

    # ---- (B)
    n_inst = {"quick": 260, "thorough": 2000}[tier]
    cases = []
    kinds = {}
    for k in range(n_inst):
        u = rng.random()
        try:
            if u < 0.35:
                inst, fam = bp.make_instance(*bp.fam_random(rng, 14, 5, 3, 14)), "random"
            elif u < 0.55:
                inst, fam = bp.make_instance(*bp.fam_dense(rng)), "dense"
            elif u < 0.70:
                inst, fam = bp.make_instance(*bp.fam_degenerate(rng)), "degenerate"
            elif u < 0.85:
                inst, fam = bp.make_instance(*bp.fam_storage_edge(rng)), "storage-edge"
            elif u < 0.93:
                W = rng.randint(10 ** 9 - 3, 2 * 10 ** 9)
                H = rng.randint(1, 12)
                if rng.random() < 0.5:
                    W, H = H, W
                inst, fam = bp.make_instance(W, H, [[1, 1, rng.randint(1, 5)],
                                                    [rng.randint(1, min(W, 10 ** 6)), 1, 2]]), "bin-side-over-1e9"
            else:
                inst, fam = bp.fam_shipped(rng, 40), "shipped"
        except ValueError:
            continue
        v = Validator(inst)
        tests = []
        for _ in range(rng.randint(4, 8)):
            if rng.random() < 0.5:
                st = bp.decode_fresh(inst, rng.choice([1, 2]), bp.random_perm(inst, rng))
                rows, nb = st["rows"], st["nb"]
            else:
                rows, nb = random_layout(inst, rng, rng.choice([0.05, 0.3, 0.7]))
            wrong = ""
            kind = "feasible"
            w = rng.random()
            if w < 0.70:
                rows, nb, kind = corrupt(inst, rows, nb, rng)
                if rng.random() < 0.25:
                    rows, nb, k2 = corrupt(inst, rows, nb, rng)
                    kind += "+" + k2
            elif w < 0.76:
                wrong = kind = rng.choice(["dtype", "shape"])
            try:
                tests.append(v.test(rows, nb, wrong=wrong))
            except core.MachineryError:
                continue
            kinds[kind.split("+")[0]] = kinds.get(kind.split("+")[0], 0) + 1
        rec = {"id": f"{fam}-{k}", **bp.inst_record(inst), "tests": tests}
        if k % 3 == 0 and inst.n_items <= 60:       # texts of the wrong length, derived from a feasible packing
            st = bp.decode_fresh(inst, rng.choice([1, 2]), bp.random_perm(inst, rng))
            rec["texts"] = wrong_length_texts(v, st["rows"], st["nb"], rng)
        cases.append(rec)
        nrej = sum(1 - t["accepted"] for t in tests)
        rep.family(fam, len(tests), nrej)
        rep.nontrivial += nrej
        if sum(1 for s in rep.samples if s.get("family") == fam) < 1:
            rep.samples.append({"family": fam, "W": rec["W"], "H": rec["H"], "items": rec["items"],
                                "test": {kk: vv for kk, vv in tests[0].items() if kk != "rt"}})
    vs = core.validate("binpack/Trace_Validate", cases, shards=14)
    core.classify(rep, vs, {c["id"]: c for c in cases}, family="recorded")
    rep.traces += sum(len(c["tests"]) for c in cases)
    rep.evaluations = rep.traces
    rep.notes.append({"corruption_kinds": kinds})
    rep.rule = ("(a) every decoder output of the TLC scope " + str(consts) + " and every single-cell / bin-count "
                "corruption of it; (b) seeded semantic corruptions of real packings (decoder outputs and arbitrary "
                "feasible layouts). non-trivial = tests the real validator rejected (counted); accepted ones are "
                "the feasible controls.")
    rep.assumptions = ["corrupted values are clipped to the storage type's range before being stored"]
    return core.finish(rep)


def replay(prop: str, case: dict) -> dict:
    inst = bp.make_instance(case["W"], case["H"], case["items"])
    v = Validator(inst)
    tests = []
    for t in case["tests"]:
        wrong = "dtype" if t["dtype_ok"] == 0 else ("shape" if t["shape_ok"] == 0 else "")
        rows = t["rows"][:-1] if wrong == "shape" else t["rows"]
        tests.append(v.test(rows, t["nb"], wrong=wrong))
    rec = {"id": "replay", **bp.inst_record(inst), "tests": tests}
    if "texts" in case:       # wrong-length texts again, derived from a fresh feasible packing of the instance
        rng = random.Random(1)
        st = bp.decode_fresh(inst, 1, bp.random_perm(inst, rng))
        rec["texts"] = wrong_length_texts(v, st["rows"], st["nb"], rng)
    vs = core.validate("binpack/Trace_Validate", [rec])
    return {"clause": vs["replay"], "case": rec}
