"""C07: the TTP error count is 0 exactly for feasible round-robin schedules, equals the
documented per-rule count on consistent plans, is >= 0 and <= the declared upper bound.

MC : spec/ttp/MC_RR.tla - (SpecAll) every 2-team plan x every admissible constraint
     setting; (SpecRR) every day-wise consistent 4-team plan, built day by day, with the
     complete feasible set printed.  TLC checks oracle <=> documented count = 0.
A  : every SpecAll state is evaluated by the real Errors objective (through Trace_TTP);
     for four teams the real counter runs on ALL day-consistent plans and its zero set
     must equal TLC's feasible set (both directions).
B  : random plans (arbitrary cells / consistent / with byes / self-play / one wrong cell /
     circle-method schedules) for n = 4..12 under random admissible settings.
"""
from __future__ import annotations

import itertools
import random

import numpy as np

from .. import core, tlc
from .. import ttp as tp
from ..core import Report, small


def _trace_cfg() -> str:
    return 'SPECIFICATION Spec\nCONSTANT Prop = "C07"\n'


class ErrObj:
    def __init__(self, inst) -> None:
        self.inst = inst
        self.obj = tp.mods()["Errors"](inst)
        self.ub = int(self.obj.upper_bound())
        self.y = tp.mods()["GamePlan"](inst)

    def eval(self, rows) -> int:
        self.y[:, :] = np.array(rows, dtype=np.int64)
        return int(self.obj.evaluate(self.y))


def domain_case(cid: str, rng: random.Random, n: int, rounds: int, k: int) -> dict:
    """What GamePlanSpace.validate accepts: k arrays in and around the domain of the property."""
    m = tp.mods()
    inst = tp.make_instance(n, rounds)
    other = tp.make_instance(n, rounds, name="w")
    space = m["GamePlanSpace"](inst)
    days = (n - 1) * rounds
    dom = []
    for _ in range(k):
        kind = rng.choice(["in", "in", "extreme", "out1", "out-far", "shape-days", "shape-teams", "dtype", "instance"])
        d2, n2 = days, n
        if kind == "shape-days":
            d2 = max(1, days + rng.choice([-1, 1, 2]))
        if kind == "shape-teams":
            n2 = max(1, n + rng.choice([-1, 1]))
        rows = [[rng.randint(-n, n) for _ in range(n2)] for _ in range(d2)]
        if kind == "extreme":
            for _ in range(rng.randint(1, 4)):
                rows[rng.randrange(d2)][rng.randrange(n2)] = rng.choice([-n, n])
        elif kind == "out1":
            rows[rng.randrange(d2)][rng.randrange(n2)] = rng.choice([-n - 1, n + 1])
        elif kind == "out-far":
            rows[rng.randrange(d2)][rng.randrange(n2)] = rng.choice([-100, 100, -n - 2, n + 3, 127, -128])
        dt = inst.game_plan_dtype
        if kind == "dtype":
            dt = np.dtype(np.int64) if dt != np.dtype(np.int64) else np.dtype(np.int32)
        y = np.array(rows, dtype=dt).view(m["GamePlan"])
        y.instance = other if kind == "instance" else inst
        try:
            space.validate(y)
            acc = 1
        except (ValueError, TypeError):
            acc = 0
        dom.append({"plan": rows, "foreign": 1 if kind in ("dtype", "instance") else 0, "accepted": acc, "kind": kind})
    return {"id": cid, "cfg": tp.cfg_of(inst), "ub": 0, "plans": [], "dom": dom}


def extreme_cfg(rng: random.Random, ll: int, k: int) -> dict:
    """Constraint settings over the whole admissible range: defaults, small minima, large separation limits
    (separation_min close to the season length or separation_max close to 0), large streak minima."""
    kind = k % 4
    if kind == 0:
        return {}
    if kind == 1:
        hmin, amin = rng.randint(1, min(3, ll)), rng.randint(1, min(3, ll))
        smin = rng.randint(0, min(3, ll))
    elif kind == 2:
        hmin, amin = 1, 1
        smin = rng.randint(0, ll)
        if rng.random() < 0.5:
            return {"hmin": 1, "hmax": min(3, ll), "amin": 1, "amax": min(3, ll), "smin": smin, "smax": rng.randint(smin, ll)} \
                if rng.random() < 0.6 else {"hmin": 1, "hmax": min(3, ll), "amin": 1, "amax": min(3, ll), "smin": 0, "smax": rng.randint(0, min(2, ll))}
    else:
        hmin, amin = rng.randint(1, ll), rng.randint(1, ll)
        smin = rng.randint(0, ll)
    return {"hmin": hmin, "hmax": rng.randint(hmin, ll), "amin": amin, "amax": rng.randint(amin, ll),
            "smin": smin, "smax": rng.randint(smin, ll)}


def _rr4_cfg(rounds: int, c: dict, fixed: bool = False) -> str:
    return ("SPECIFICATION SpecRR\nCONSTANTS N = 4\n Rounds = %d\n HMin = %d\n HMax = %d\n AMin = %d\n"
            " AMax = %d\n SMin = %d\n SMax = %d\nINVARIANT OracleVsDoc\nINVARIANT FeasibleImpliesZero\n"
            "INVARIANT EmitFeasible\n" % (rounds, c["hmin"], c["hmax"], c["amin"], c["amax"], c["smin"],
                                          c["smax"])) + ("CONSTRAINT FirstDayFixed\n" if fixed else "")


def rr4_feasible_set(rep: Report, rounds: int, c: dict, fixed: bool = False) -> set:
    res = tlc.run("ttp/MC_RR", cfg_text=_rr4_cfg(rounds, c, fixed), workers=16, timeout=6000, heap="12g")
    rep.add_mc(f"MC_RR SpecRR n=4 rounds={rounds} cfg={c}" + (" (first day fixed)" if fixed else ""), res)
    return {tuple(map(tuple, v[1])) for v in res.tagged("F")}


def relabel_closure(plans: set) -> set:
    """All images of the plans under renaming the four teams (the constraints do not depend on team names, and
    every consistent first day is the image of <<2,-1,4,-3>> under some renaming)."""
    import itertools as _it
    out = set()
    for pi in _it.permutations(range(4)):
        inv = [0] * 4
        for a, b in enumerate(pi):
            inv[b] = a
        for p in plans:
            q = []
            for day in p:
                nd = [0] * 4
                for t in range(4):
                    v = day[t]
                    o = abs(v) - 1
                    nd[pi[t]] = (pi[o] + 1) * (1 if v > 0 else -1)
                q.append(tuple(nd))
            out.add(tuple(q))
    return out


def run(prop: str, tier: str, seed: int) -> int:
    rep = Report(prop, tier, seed)
    rng = random.Random(seed * 49979687 + 7)

    # ---- (MC + A) n = 2, all plans x all settings
    r2 = {"quick": [1, 2], "thorough": [1, 2, 3]}[tier]
    cases = []
    for rounds in r2:
        if rounds == 3 and tier == "thorough":
            pass
        cfg = ("SPECIFICATION SpecAll\nCONSTANTS N = 2\n Rounds = %d\n HMin = 1\n HMax = 1\n AMin = 1\n"
               " AMax = 1\n SMin = 0\n SMax = 0\nINVARIANT OracleVsDoc\nINVARIANT FeasibleImpliesZero\n" % rounds)
        if rounds <= 2:
            dump = tlc.work_dir("gen") / "rr2.dump"
            try:
                res = tlc.run("ttp/MC_RR", cfg_text=cfg, workers=16, timeout=3000, dump=str(dump))
                rep.add_mc(f"MC_RR SpecAll n=2 rounds={rounds}", res)
                objs = {}
                groups = {}
                for st in tlc.read_dump(dump):
                    c = st["cfg"]
                    key = tuple(sorted(c.items()))
                    if key not in objs:
                        objs[key] = ErrObj(tp.make_instance(2, rounds, c))
                    groups.setdefault(key, []).append(st["plan"])
                for key, plans in groups.items():
                    eo = objs[key]
                    for k in range(0, len(plans), 700):
                        cases.append({"id": f"all2-r{rounds}-{len(cases)}", "cfg": {**dict(key), "stored": tp.stored_cfg(eo.inst)}, "ub": small(eo.ub),
                                      "plans": [{"plan": p, "errors": small(eo.eval(p))}
                                                for p in plans[k:k + 700]]})
            finally:
                import shutil
                shutil.rmtree(dump.parent, ignore_errors=True)
        else:
            # 5^6 plans x 6375 settings is too much to dump: TLC checks the oracle on a sample of settings,
            # the real counter is validated on all plans for 60 random settings
            plans = list(tp.all_plans_n2(rounds))
            ll = rounds * 2 - 1
            for _ in range(60):
                hmin, amin = rng.randint(1, ll), rng.randint(1, ll)
                smin = rng.randint(0, ll)
                c = {"hmin": hmin, "hmax": rng.randint(hmin, ll), "amin": amin, "amax": rng.randint(amin, ll),
                     "smin": smin, "smax": rng.randint(smin, ll)}
                inst = tp.make_instance(2, rounds, c)
                eo = ErrObj(inst)
                for k in range(0, len(plans), 800):
                    cases.append({"id": f"all2-r{rounds}-{len(cases)}", "cfg": tp.cfg_of(inst), "ub": small(eo.ub),
                                  "plans": [{"plan": p, "errors": small(eo.eval(p))} for p in plans[k:k + 800]]})
    n_all2 = sum(len(c["plans"]) for c in cases)
    vs = core.validate("ttp/Trace_TTP", cases, cfg_text=_trace_cfg(), shards=14)
    core.classify(rep, vs, {c["id"]: c for c in cases}, family="all-2-team-plans")
    rep.family("all-2-team-plans-x-settings", n_all2, n_all2)
    rep.traces += n_all2
    rep.exhaustive = True
    if cases:
        rep.samples.append({"family": "all-2-team-plans", "cfg": cases[-1]["cfg"], "ub": cases[-1]["ub"],
                            "first": cases[-1]["plans"][:3]})

    # ---- (MC + A) n = 4: feasible set by TLC == zero set of the real counter, on ALL consistent plans
    rounds4 = {"quick": 1, "thorough": 2}[tier]
    ll = rounds4 * 4 - 1
    settings = [{"hmin": 1, "hmax": min(3, ll), "amin": 1, "amax": min(3, ll), "smin": 1, "smax": ll - 1 if rounds4 == 2 else ll}]
    if tier == "quick":
        settings += [{"hmin": 1, "hmax": 2, "amin": 1, "amax": 2, "smin": 0, "smax": 3},
                     {"hmin": 2, "hmax": 3, "amin": 1, "amax": 3, "smin": 0, "smax": 3},
                     {"hmin": 1, "hmax": 1, "amin": 1, "amax": 1, "smin": 0, "smax": 3}]
    else:
        settings += [{"hmin": 1, "hmax": 3, "amin": 2, "amax": 3, "smin": 1, "smax": 6}]
    days4 = 3 * rounds4
    cd = tp.consistent_days(4)
    for c in settings:
        F = rr4_feasible_set(rep, rounds4, c)
        inst = tp.make_instance(4, rounds4, c)
        eo = ErrObj(inst)
        Z = set()
        n_all = 0
        for combo in itertools.product(cd, repeat=days4):
            n_all += 1
            if eo.eval(combo) == 0:
                Z.add(tuple(map(tuple, combo)))
        diff = list(Z ^ F)
        rep.notes.append(f"n=4 rounds={rounds4} cfg={c}: {n_all} consistent plans, TLC feasible set {len(F)}, "
                         f"real zero set {len(Z)}, symmetric difference {len(diff)}")
        rep.family(f"rr4-all-consistent-plans", n_all, len(F))
        rep.nontrivial += len(F)
        rep.traces += n_all
        if diff:
            dc = [{"id": f"rr4-{len(rep.violations)}-{i}", "cfg": tp.cfg_of(inst), "ub": small(eo.ub),
                   "plans": [{"plan": [list(r) for r in p], "errors": small(eo.eval(p))}]}
                  for i, p in enumerate(diff[:200])]
            vs = core.validate("ttp/Trace_TTP", dc, cfg_text=_trace_cfg())
            core.classify(rep, vs, {q["id"]: q for q in dc}, family="rr4")
            for q in dc:     # a plan in the difference that TLC does not flag is a machinery problem
                if not core.clauses_of(vs[q["id"]]):
                    raise core.MachineryError(f"plan in symmetric difference but trace spec says ok: {q}")
        if F:
            p = sorted(F)[0]
            rep.samples.append({"family": "rr4-feasible (from TLC)", "cfg": c, "plan": [list(r) for r in p],
                                "real_errors": eo.eval(p)})

    # ---- (B)
    n_b = {"quick": 400, "thorough": 4000}[tier]
    cases = []
    for k in range(n_b):
        n = rng.choice([4, 4, 4, 6, 6, 8, 10, 12])
        rounds = rng.choice([1, 2, 2, 2, 3])
        ll = rounds * n - 1
        if rng.random() < 0.4:
            c = {}
        else:
            hmin, amin = rng.randint(1, min(3, ll)), rng.randint(1, min(3, ll))
            smin = rng.randint(0, min(3, ll))
            c = {"hmin": hmin, "hmax": rng.randint(hmin, min(ll, hmin + 3)), "amin": amin,
                 "amax": rng.randint(amin, min(ll, amin + 3)), "smin": smin,
                 "smax": rng.randint(smin, ll)}
        inst = tp.make_instance(n, rounds, c)
        eo = ErrObj(inst)
        days = (n - 1) * rounds
        plans = []
        for _ in range(rng.randint(3, 6)):
            kind = rng.choice(["arbitrary", "consistent", "byes", "self", "one-wrong", "circle", "circle",
                               "circle-one-wrong", "circle-byes"])
            if kind.startswith("circle"):
                rows = tp.circle_schedule(n, rounds, rng)
                if kind == "circle-one-wrong":
                    rows[rng.randrange(days)][rng.randrange(n)] = rng.randint(-n, n)
                elif kind == "circle-byes":
                    d, t = rng.randrange(days), rng.randrange(n)
                    o = abs(rows[d][t]) - 1
                    rows[d][t] = 0
                    rows[d][o] = 0
            else:
                rows = tp.random_plan(rng, n, days, kind)
            plans.append({"plan": rows, "errors": small(eo.eval(rows))})
        cases.append({"id": f"rand-{k}", "cfg": tp.cfg_of(inst), "ub": small(eo.ub), "plans": plans})
        rep.family("random-plans", len(plans), len(plans))
        rep.nontrivial += len(plans)
    # adversarial: let a local search MINIMISE the real error count (game-permutation encoding); whatever it
    # reaches - in particular every plan the code calls error-free - is judged by the TLC oracle
    from moptipy.algorithms.so.rls import RLS
    from moptipy.api.execution import Execution
    from moptipy.operators.permutations.op0_shuffle import Op0Shuffle
    from moptipy.operators.permutations.op1_swap2 import Op1Swap2
    n_zero = 0
    for k in range({"quick": 10, "thorough": 80}[tier]):
        n = rng.choice([4, 6, 6, 8])
        rounds = rng.choice([1, 2])
        ll = rounds * n - 1
        c = {} if rng.random() < 0.5 else {"hmin": rng.choice([1, 2]), "hmax": 3, "amin": rng.choice([1, 2]), "amax": 3,
                                          "smin": rng.choice([0, 1, 2]), "smax": ll}
        inst = tp.make_instance(n, rounds, c)
        enc = tp.mods()["GameEncoding"](inst)
        space = enc.search_space()
        obj = tp.mods()["Errors"](inst)
        ex = Execution().set_search_space(space).set_solution_space(tp.mods()["GamePlanSpace"](inst)) \
            .set_encoding(enc).set_objective(obj).set_algorithm(RLS(Op0Shuffle(space), Op1Swap2())) \
            .set_max_fes({"quick": 4000, "thorough": 20000}[tier]).set_rand_seed(rng.randrange(1, 1 << 40))
        try:
            with ex.execute() as proc:
                y = ex._solution_space.create()
                proc.get_copy_of_best_y(y)
        except ValueError as exc:     # the process validates its best plan with the game-plan space when it ends
            # (judged by the game-plan-space-domain family below; here the run simply yields no plan)
            rep.notes.append(f"search-{k}: the process rejected its own best plan: {str(exc)[:120]}")
            continue
        rows = [[int(v) for v in r] for r in np.asarray(y).tolist()]
        eo = ErrObj(inst)
        e = eo.eval(rows)
        n_zero += 1 if e == 0 else 0
        cases.append({"id": f"search-{k}", "cfg": tp.cfg_of(inst), "ub": small(eo.ub),
                      "plans": [{"plan": rows, "errors": small(e)}]})
        rep.family("minimised-by-local-search", 1, 1)
        rep.nontrivial += 1
    rep.notes.append(f"local search reached {n_zero} plans that the real counter calls error-free")
    # ... and the other way round: a hill climber over ARBITRARY plans that MAXIMISES the real error count probes
    # the declared upper bound (inconsistent plans such as "everybody at home every day" are the extreme ones)
    for k in range({"quick": 8, "thorough": 40}[tier]):
        n = rng.choice([2, 4, 4, 6])
        rounds = rng.choice([1, 2, 2, 3])
        ll = rounds * n - 1
        c = extreme_cfg(rng, ll, k)
        inst = tp.make_instance(n, rounds, c)
        eo = ErrObj(inst)
        days = (n - 1) * rounds
        if k % 4 < 2:     # start from "the same (inconsistent) day over and over, everybody at home"
            day0 = [rng.choice([o for o in range(1, n + 1) if o != t + 1]) for t in range(n)]
            p = [day0[:] for _ in range(days)]
        else:
            p = [[rng.randint(-n, n) for _ in range(n)] for _ in range(days)]
        v = eo.eval(p)
        for _ in range({"quick": 4000, "thorough": 15000}[tier]):
            d, t = rng.randrange(days), rng.randrange(n)
            old = p[d][t]
            p[d][t] = rng.randint(-n, n)
            w = eo.eval(p)
            if w >= v:
                v = w
            else:
                p[d][t] = old
        cases.append({"id": f"maximised-{k}", "cfg": tp.cfg_of(inst), "ub": small(eo.ub),
                      "plans": [{"plan": [r[:] for r in p], "errors": small(v)}]})
        rep.family("maximised-by-local-search", 1, 1)
        rep.nontrivial += 1
    # structured extreme plans (the same inconsistent day over and over, ...) under the whole range of limits:
    # they maximise one error source at a time and are what a declared upper bound has to cover
    for k in range({"quick": 250, "thorough": 2500}[tier]):
        n = rng.choice([2, 4, 4, 6, 8])
        rounds = rng.choice([1, 2, 2, 3])
        ll = rounds * n - 1
        inst = tp.make_instance(n, rounds, extreme_cfg(rng, ll, rng.randrange(8)))
        eo = ErrObj(inst)
        days = (n - 1) * rounds
        rows_of_kind = {
            "cycle-home": [(t + 1) % n + 1 for t in range(n)],
            "cycle-away": [-((t + 1) % n + 1) for t in range(n)],
            "all-visit-last": [-n] + [1] * (n - 1) if n > 2 else [-2, -1],
            "everybody-hosts-random": [rng.choice([o for o in range(1, n + 1) if o != t + 1]) for t in range(n)],
            "everybody-away-random": [-rng.choice([o for o in range(1, n + 1) if o != t + 1]) for t in range(n)],
            "self": [t + 1 for t in range(n)], "byes": [0] * n,
        }
        plans = []
        for kind in rng.sample(sorted(rows_of_kind), 4):
            row = rows_of_kind[kind]
            rows = [row[:] for _ in range(days)]
            if rng.random() < 0.3:      # alternate with its mirror image
                for d in range(1, days, 2):
                    rows[d] = [-v for v in row]
            plans.append({"plan": rows, "errors": small(eo.eval(rows))})
        cases.append({"id": f"extreme-{k}", "cfg": tp.cfg_of(inst), "ub": small(eo.ub), "plans": plans})
        rep.family("structured-extreme-plans", len(plans), len(plans))
        rep.nontrivial += len(plans)
    # many teams: the shipped instances go up to 40 teams; team ids around word sizes and the int8 edge
    for n in {"quick": [32, 34, 40], "thorough": [32, 34, 36, 40, 64, 66, 126, 128, 130]}[tier]:
        rounds = 2 if n <= 40 else 1
        ll = rounds * n - 1
        c = {} if n != 34 else {"hmin": 2, "hmax": 4, "amin": 1, "amax": 3, "smin": 1, "smax": ll}
        inst = tp.make_instance(n, rounds, c)
        eo = ErrObj(inst)
        days = (n - 1) * rounds
        plans = []
        for kind in ("circle", "circle-one-wrong", "consistent", "byes", "arbitrary"):
            if kind.startswith("circle"):
                rows = tp.circle_schedule(n, rounds, rng)
                if kind == "circle-one-wrong":
                    rows[rng.randrange(days)][rng.randrange(n)] = rng.choice([-n, n, n - 1, 1 - n])
            else:
                rows = tp.random_plan(rng, n, days, kind)
            plans.append({"plan": rows, "errors": small(eo.eval(rows))})
        cases.append({"id": f"many-teams-{n}", "cfg": tp.cfg_of(inst), "ub": small(eo.ub), "plans": plans})
        rep.family("many-teams(32..130)", len(plans), len(plans))
        rep.nontrivial += len(plans)
    # long seasons: day indices beyond the int8 range (scratch arrays must be wide enough)
    n_long = {"quick": 24, "thorough": 160}[tier]
    for k in range(n_long):
        n = 4
        rounds = rng.randint(40, 50)
        ll = rounds * n - 1
        c = {"hmin": 1, "hmax": 3, "amin": 1, "amax": 3, "smin": rng.choice([0, 1, 1, 2]),
             "smax": rng.choice([ll, ll, 10])}
        inst = tp.make_instance(n, rounds, c)
        eo = ErrObj(inst)
        days = (n - 1) * rounds
        plans = []
        for v in range(3):
            rows = tp.circle_schedule(n, rounds, rng)
            if v >= 1:    # exchange two neighbouring days late in the season, reverse a late day
                d = rng.randint(days - 20, days - 2)
                rows[d], rows[d + 1] = rows[d + 1], rows[d]
            if v == 2:
                d = rng.randint(days - 20, days - 1)
                rows[d] = [-x for x in rows[d]]
            plans.append({"plan": rows, "errors": small(eo.eval(rows))})
        cases.append({"id": f"long-{k}", "cfg": tp.cfg_of(inst), "ub": small(eo.ub), "plans": plans})
        rep.family("long-seasons(>127 days)", len(plans), len(plans))
        rep.nontrivial += len(plans)
    # the domain of the property: what the game-plan space accepts
    n_dom = {"quick": 40, "thorough": 300}[tier]
    for k in range(n_dom):
        n = rng.choice([2, 4, 4, 6, 8])
        cases.append(domain_case(f"domain-{k}", rng, n, rng.randint(1, 3), 12))
        rep.family("game-plan-space-domain", 12, 12)
        rep.nontrivial += 12
    vs = core.validate("ttp/Trace_TTP", cases, cfg_text=_trace_cfg(), shards=14)
    core.classify(rep, vs, {c["id"]: c for c in cases}, family="random")
    rep.traces += sum(len(c["plans"]) + len(c.get("dom", [])) for c in cases)
    rep.evaluations = rep.traces
    rep.rule = ("(a) all plans with 2 teams (entries -2..2) under all admissible settings (rounds 1..2; rounds 3 "
                "under sampled settings in thorough); (b) all day-wise consistent 4-team plans (12 per day): the real "
                "zero set must equal TLC's feasible set; (c) seeded random plans n = 4..12, random settings. "
                "non-trivial = every plan (each is a distinct input); for (b) the feasible ones.")
    return core.finish(rep)


def replay(prop: str, case: dict) -> dict:
    c = case["cfg"]
    if case.get("dom"):       # re-judge the same arrays with the real space
        m = tp.mods()
        inst = tp.make_instance(c["n"], c["rounds"])
        other = tp.make_instance(c["n"], c["rounds"], name="w")
        space = m["GamePlanSpace"](inst)
        dom = []
        for e in case["dom"]:
            dt = inst.game_plan_dtype
            if e["kind"] == "dtype":
                dt = np.dtype(np.int64) if dt != np.dtype(np.int64) else np.dtype(np.int32)
            y = np.array(e["plan"], dtype=dt).view(m["GamePlan"])
            y.instance = other if e["kind"] == "instance" else inst
            try:
                space.validate(y)
                acc = 1
            except (ValueError, TypeError):
                acc = 0
            dom.append({**e, "accepted": acc})
        rec = {"id": "replay", "cfg": tp.cfg_of(inst), "ub": 0, "plans": [], "dom": dom}
        vs = core.validate("ttp/Trace_TTP", [rec], cfg_text=_trace_cfg())
        return {"clause": vs["replay"], "case": rec}
    inst = tp.make_instance(c["n"], c["rounds"], c)
    eo = ErrObj(inst)
    rec = {"id": "replay", "cfg": tp.cfg_of(inst), "ub": small(eo.ub),
           "plans": [{"plan": p["plan"], "errors": small(eo.eval(p["plan"]))} for p in case["plans"]]}
    vs = core.validate("ttp/Trace_TTP", [rec], cfg_text=_trace_cfg())
    return {"clause": vs["replay"], "case": rec}
