"""C12: bundled experiment setups terminate within their budget, log a final solution that is
feasible and whose logged value equals an independent re-evaluation, and are reproduced by a
second run with the same seed; bin-packing logs parse back to the same packing, values, bounds.

MC : spec/runs/Process.tla - budget / best-so-far machine (incl. the re-evaluation of the best
     solution after the search).
B  : every setup is executed twice with the same seed; all objective evaluations are observed
     through a recording subclass installed by class swap.  Trace_Run checks the process
     clauses and bit-equality with a FRESH objective on the logged solution; the logged solution
     itself goes to the domain trace specifications (Trace_Obj, Trace_TSP, Trace_TTP, Trace_QAP,
     Trace_LB), where TLC recomputes the objective and feasibility from their definitions.
"""
from __future__ import annotations

import random
import shutil

import numpy as np

from .. import binpack as bp
from .. import core, tlc
from ..core import Report, f64, small


def record(obj) -> list:
    vals: list = []
    base = obj.__class__

    def ev(self, x, _b=base, _v=vals):
        v = _b.evaluate(self, x)
        _v.append(float(v))
        return v
    obj.__class__ = type(base.__name__, (base,), {"evaluate": ev})
    return vals


def execute(ex, seed: int, log=None) -> tuple:
    ex.set_rand_seed(seed)
    if log is not None:
        ex.set_log_file(str(log))
    with ex.execute() as proc:
        best = float(proc.get_best_f())
        fes = int(proc.get_consumed_fes())
        has_enc = getattr(ex, "_encoding", None) is not None
        bx = None
        if has_enc:
            x = ex._solution_space.create()
            proc.get_copy_of_best_y(x)
            bx = ex._search_space.create()
            proc.get_copy_of_best_x(bx)
        else:
            x = ex._solution_space.create()
            proc.get_copy_of_best_x(x)
    return best, fes, x, bx


def run_case(cid: str, make, seed: int, max_fes: int, logdir=None, observed_all: int = 1) -> tuple:
    """make() -> (execution, objective, fresh objective factory, equality of solutions)."""
    outs = []
    for rep_i in range(2):
        ex, obj, fresh_factory = make()
        ex.set_max_fes(max_fes)
        vals = record(obj)
        if logdir is not None:
            log = logdir(rep_i)
        else:
            dd = tlc.WORK / "c12logs"
            dd.mkdir(parents=True, exist_ok=True)
            log = dd / ("".join(ch if ch.isalnum() else "_" for ch in cid) + f"_{rep_i}.txt")
        best, fes, sol, bx = execute(ex, seed, log)
        outs.append((best, fes, sol, vals, log, bx))
    (b1, f1, s1, v1, log1, _), (b2, f2, s2, v2, _l2, _) = outs
    fresh = fresh_factory()
    fv = float(fresh.evaluate(s1))
    same = (type(s1) is type(s2)) and (bool(np.array_equal(np.asarray(s1), np.asarray(s2)))
                                       if not isinstance(s1, list) else _inst_list_equal(s1, s2))
    rec = {"id": cid, "max_fes": max_fes, "fes": small(f1), "best": f64(b1), "evals": [f64(v) for v in v1],
           "evals2": [f64(v) for v in v2], "same_solution": 1 if (same and b1 == b2 and f1 == f2) else 0,
           "fresh": f64(fv), "feasible": -1, "parsed": -1, "seed": seed, "observed_all": observed_all}
    return rec, s1, log1


def _inst_list_equal(a, b) -> bool:
    return len(a) == len(b) == 1 and a[0].name == b[0].name and a[0].shape == b[0].shape \
        and bool(np.array_equal(np.asarray(a[0]), np.asarray(b[0])))


def run(prop: str, tier: str, seed: int) -> int:
    rep = Report(prop, tier, seed)
    rng = random.Random(seed * 6700417 + 12)
    res = tlc.run("runs/Process", cfg_text="SPECIFICATION Spec\nCONSTANTS MaxFEs = 5\n Vals = {1, 2, 3}\n"
                  "INVARIANT WithinBudget\nINVARIANT BestIsMin\nINVARIANT ExtraOnlyBest\n", workers=4, timeout=300)
    rep.add_mc("Process budget/best machine", res)
    runs = []          # Trace_Run cases
    obj_cases, lb_cases, tsp_cases, ttp_cases, qap_cases = [], [], [], [], []
    work = tlc.work_dir("runs")
    try:
        # ---------------- bin packing: rls / fea x 7 objectives x 2 encodings
        from moptipyapps.binpacking2d import experiment as bexp
        from moptipyapps.binpacking2d import packing_result as pr
        from moptipyapps.binpacking2d.instance import Instance as BInst
        from .c02 import Objectives, objective_classes
        encs = [bp._mods()[1], bp._mods()[2]]
        combos = [(a, o, e) for a in ("rls", "fea") for o in range(7) for e in (0, 1)]
        if tier == "quick":
            combos = rng.sample(combos, 10)
        for k, (algo, o, e) in enumerate(combos):
            name = rng.choice(["a04", "a10", "beng01", "cl02_020_03", "cl01_020_01", "a01"])
            inst = BInst.from_resource(name)
            ocls = objective_classes()[o]
            seed_k = rng.randrange(1, 1 << 40)
            holder = {}

            def make(inst=inst, ocls=ocls, e=e, algo=algo, holder=holder):
                def objf(i):
                    holder["obj"] = ocls(i)
                    return holder["obj"]
                ex = getattr(bexp, algo)(inst, encs[e], objf)
                return ex, holder["obj"], lambda: ocls(inst)

            aname = str(make()[0]._algorithm)     # moptipy's log parser wants <algo>/<inst>/<algo>_<inst>_0x<seed>.txt

            def logdir(rep_i, algo=aname, name=name, seed_k=seed_k, k=k):
                d = work / f"bp{k}_{rep_i}" / algo / name
                d.mkdir(parents=True, exist_ok=True)
                return d / f"{algo}_{name}_0x{seed_k:x}.txt"
            rec, y, log = run_case(f"binpack-{algo}-{ocls.__name__}-enc{e + 1}-{name}", make, seed_k,
                                   rng.choice([32, 64, 128]), logdir)
            objs = Objectives(inst)
            rows = bp.rows_of(y)
            nb = small(int(y.n_bins))
            oc = {"id": rec["id"], **bp.inst_record(inst), **objs.bounds(), "packs": [objs.evaluate(rows, nb)]}
            obj_cases.append(oc)
            # parse the log back
            try:
                presult = pr.from_single_log(str(log))
                from moptipyapps.binpacking2d.packing import Packing
                py = Packing.from_log(str(log))
                ok = bp.rows_of(py) == rows and int(py.n_bins) == nb
                for oo, v in zip(objs.objs, oc["packs"][0]["vals"]):
                    ok &= int(presult.objectives[str(oo)]) == core.unbig(v)
                    ok &= int(presult.objective_bounds[str(oo) + ".lowerBound"]) == int(oo.lower_bound())
                    ok &= int(presult.objective_bounds[str(oo) + ".upperBound"]) == int(oo.upper_bound())
                ok &= float(presult.end_result.best_f) == float(core.unbig(oc["packs"][0]["vals"][o]))
                rec["parsed"] = 1 if ok else 0
                bb = presult.bin_bounds
                lb_cases.append({"id": rec["id"], **bp.inst_record(inst),
                                 "lbs": [small(int(bb[kk])) for kk in sorted(bb)], "wit": [{"rows": rows, "nb": nb}],
                                 "bound_names": sorted(bb)})
            except (ValueError, KeyError) as ex:
                rec["parsed"] = 0
                rec["parse_error"] = str(ex)[:200]
            runs.append(rec)
            rep.family("binpacking rls/fea", 1, 1)
        # ---------------- TSP EA / FEA
        from moptipy.api.execution import Execution
        from moptipy.spaces.permutations import Permutations
        from .. import tsp as ts
        from .c05 import record as tsp_record
        for k, nm in enumerate(["gr17", "gr21", "bays29"][: (2 if tier == "quick" else 3)]):
            inst = ts.mods()["Instance"].from_resource(nm)
            for algo in ("EA", "FEA"):
                def make(inst=inst, algo=algo):
                    obj = ts.mods()["TourLength"](inst)
                    space = Permutations.standard(inst.n_cities)
                    ex = Execution().set_solution_space(space).set_objective(obj) \
                        .set_algorithm(ts.mods()[algo](inst))
                    return ex, obj, lambda: ts.mods()["TourLength"](inst)
                # these algorithms hand (x, y) pairs to process.register: the objective is called once only
                rec, x, _ = run_case(f"tsp-{algo}-{nm}", make, rng.randrange(1, 1 << 40), 300, observed_all=0)
                runs.append(rec)
                n = inst.n_cities
                M = [[int(inst[i, j]) for j in range(n)] for i in range(n)]
                tsp_cases.append(tsp_record(rec["id"], M, ts.make_instance(M), [[int(v) for v in x]]))
                rep.family("tsp ea/fea", 1, 1)
        # ---------------- TTP and QAP example searches (RLS over permutations)
        from moptipy.algorithms.so.rls import RLS
        from moptipy.operators.permutations.op0_shuffle import Op0Shuffle
        from moptipy.operators.permutations.op1_swap2 import Op1Swap2
        from .. import ttp as tp
        for k, nm in enumerate(["circ4", "con6", "gal4"][: (2 if tier == "quick" else 3)]):
            tinst = tp.mods()["Instance"].from_resource(nm)
            for oname in ("Errors", "GamePlanLength"):
                def make(tinst=tinst, oname=oname):
                    enc = tp.mods()["GameEncoding"](tinst)
                    space = enc.search_space()
                    obj = tp.mods()[oname](tinst)
                    ex = Execution().set_search_space(space).set_solution_space(tp.mods()["GamePlanSpace"](tinst)) \
                        .set_encoding(enc).set_objective(obj).set_algorithm(RLS(Op0Shuffle(space), Op1Swap2()))
                    return ex, obj, lambda: tp.mods()[oname](tinst)
                rec, y, _ = run_case(f"ttp-{oname}-{nm}", make, rng.randrange(1, 1 << 40), 200)
                runs.append(rec)
                plan = [[int(v) for v in r] for r in np.asarray(y).tolist()]
                if oname == "Errors":
                    from .c07 import ErrObj
                    eo = ErrObj(tinst)
                    ttp_cases.append(("C07", {"id": rec["id"], "cfg": tp.cfg_of(tinst), "ub": small(eo.ub),
                                              "plans": [{"plan": plan, "errors": small(eo.eval(plan))}]}))
                else:
                    from .c08 import LenObj
                    lo = LenObj(tinst)
                    ttp_cases.append(("C08", {"id": rec["id"], **lo.header(), "plans": [lo.record(plan, [])]}))
                rep.family("ttp rls", 1, 1)
        from .c09 import eval_case, mods as qmods
        qnames = [q for q in qmods()["Instance"].list_resources() if q in ("nug12", "chr12a", "had12", "scr12", "rou12")]
        for k, nm in enumerate(qnames[: (2 if tier == "quick" else 4)]):
            qinst = qmods()["Instance"].from_resource(nm)

            def make(qinst=qinst):
                space = Permutations.standard(qinst.n)
                obj = qmods()["Obj"](qinst)
                ex = Execution().set_solution_space(space).set_objective(obj) \
                    .set_algorithm(RLS(Op0Shuffle(space), Op1Swap2()))
                return ex, obj, lambda: qmods()["Obj"](qinst)
            rec, x, _ = run_case(f"qap-rls-{nm}", make, rng.randrange(1, 1 << 40), 200)
            runs.append(rec)
            qap_cases.append(eval_case(rec["id"], [[int(v) for v in r] for r in qinst.flows.tolist()],
                                       [[int(v) for v in r] for r in qinst.distances.tolist()], [[int(v) for v in x]]))
            rep.family("qap rls", 1, 1)
        # ---------------- instance generation (CMA-ES over the decoder), tiny inner budgets
        from moptipyapps.binpacking2d.instgen import experiment as iexp
        from moptipyapps.binpacking2d.instgen.errors_and_hardness import ErrorsAndHardness
        from moptipyapps.binpacking2d.instgen.problem import Problem
        for k, nm in enumerate(["a04", "cl01_020_01"][: (1 if tier == "quick" else 2)]):
            def make(nm=nm):
                problem = Problem(nm, 0.125)
                ex = iexp.cmaes(problem)
                obj = ErrorsAndHardness(problem.solution_space, 24, 2)
                ex._objective = obj     # same class as the bundled setup, but with tiny inner budgets
                return ex, obj, lambda: ErrorsAndHardness(problem.solution_space, 24, 2)
            rec, y, _ = run_case(f"instgen-cmaes-{nm}", make, rng.randrange(1, 1 << 40), 12)
            runs.append(rec)
            rep.family("instgen cmaes", 1, 1)
        # ---------------- controller synthesis with evaluation budgets
        from moptipyapps.dynamic_control import experiment_surrogate as sexp
        from moptipyapps.dynamic_control.controllers.ann import make_ann
        from moptipyapps.dynamic_control.instance import Instance as DInst
        from moptipyapps.dynamic_control.objective import FigureOfMeritLE
        from moptipyapps.dynamic_control.system_model import SystemModel
        from moptipyapps.dynamic_control.systems.stuart_landau import STUART_LANDAU_4

        from moptipyapps.dynamic_control.system import System
        o = STUART_LANDAU_4
        small_sys = System(o.name, o.state_dims, o.control_dims, o.state_dim_mod, o.state_dims_in_j, o.gamma,
                           o.test_starting_states, o.training_starting_states, 10, 10.0, 32, 10.0, o.plot_examples)
        small_sys.equations = o.equations      # type: ignore

        def make_raw():
            inst = DInst(small_sys, make_ann(2, 1, [2]))
            from moptipyapps.dynamic_control import experiment_raw as rexp
            ex = rexp.cmaes(inst)
            return ex, ex._objective, lambda: FigureOfMeritLE(inst)
        rec, x, _ = run_case("dyn-cmaes-raw-stuart_landau", make_raw, rng.randrange(1, 1 << 40), 40)
        runs.append(rec)
        rep.family("controller synthesis (raw)", 1, 1)
        if tier == "thorough":
            def make_sur():
                inst = SystemModel(small_sys, make_ann(2, 1, [2]), make_ann(3, 2, [2]))
                ex = sexp.cmaes_surrogate(inst, 16, 32, 32, False)
                return ex, ex._objective, lambda: FigureOfMeritLE(inst)
            try:
                rec, x, _ = run_case("dyn-cmaes-surrogate-stuart_landau", make_sur, rng.randrange(1, 1 << 40), 40)
                runs.append(rec)
                rep.family("controller synthesis (surrogate)", 1, 1)
            except TypeError as ex:
                # moptipy's BiPopCMAES cannot write its restart log (numpy.int64 seed) - a defect of the
                # dependency, outside thomasWeise/moptipyapps; the run is skipped, not judged
                rep.notes.append(f"surrogate run skipped: moptipy restart-log TypeError: {str(ex)[:80]}")
    finally:
        shutil.rmtree(work, ignore_errors=True)
        shutil.rmtree(tlc.WORK / "c12logs", ignore_errors=True)

    def push(module: str, cases: list, cfg=None, fam="domain"):
        if cases:
            vs = core.validate(module, cases, cfg_text=cfg, shards=8)
            core.classify(rep, vs, {c["id"]: c for c in cases}, family=fam)
    push("runs/Trace_Run", runs, fam="runs")
    push("binpack/Trace_Obj", obj_cases)
    push("binpack/Trace_LB", [{k: v for k, v in c.items() if k != "bound_names"} for c in lb_cases])
    push("tsp/Trace_TSP", tsp_cases, 'SPECIFICATION Spec\nCONSTANT Prop = "C05"\n')
    push("ttp/Trace_TTP", [c for p, c in ttp_cases if p == "C07"], 'SPECIFICATION Spec\nCONSTANT Prop = "C07"\n')
    push("ttp/Trace_TTP", [c for p, c in ttp_cases if p == "C08"], 'SPECIFICATION Spec\nCONSTANT Prop = "C08"\n')
    push("qap/Trace_QAP", qap_cases)
    rep.traces += len(runs)
    rep.evaluations = sum(len(r["evals"]) + len(r["evals2"]) for r in runs)
    rep.nontrivial = len(runs)
    rep.samples.append({k: (v if k not in ("evals", "evals2") else v[:3]) for k, v in runs[0].items()})
    rep.samples.append({"ids": [r["id"] for r in runs]})
    rep.rule = ("each listed setup x a shipped instance x a random seed x a small evaluation budget, executed twice; "
                "non-trivial = every run pair (all are distinct setups/seeds).")
    rep.assumptions = ["objective calls are observed by swapping the objective's class for a recording subclass",
                       "log parsing is exercised for the bin-packing runs only (the property says so)"]
    return core.finish(rep)


def replay(prop: str, case: dict) -> dict:
    """Re-validate the recorded run against the specification it was judged by."""
    rec = dict(case)
    rec["id"] = "replay"
    if "evals" in rec:
        mod, cfg = "runs/Trace_Run", None
    elif "packs" in rec:
        mod, cfg = "binpack/Trace_Obj", None
    elif "wit" in rec:
        mod, cfg = "binpack/Trace_LB", None
        rec.pop("bound_names", None)
    elif "tours" in rec:
        mod, cfg = "tsp/Trace_TSP", 'SPECIFICATION Spec\nCONSTANT Prop = "C05"\n'
    elif "perms" in rec:
        mod, cfg = "qap/Trace_QAP", None
    elif "plans" in rec and "M" in rec:
        mod, cfg = "ttp/Trace_TTP", 'SPECIFICATION Spec\nCONSTANT Prop = "C08"\n'
    else:
        mod, cfg = "ttp/Trace_TTP", 'SPECIFICATION Spec\nCONSTANT Prop = "C07"\n'
    vs = core.validate(mod, [rec], cfg_text=cfg)
    return {"clause": vs["replay"], "case": rec, "mode": "revalidated-recorded-case"}
