"""C05: tour length = cyclic edge sum (exact for every storage type), stored matrix = given
matrix, derived bounds enclose every tour, symmetry flag exact.

MC : spec/tsp/MC_Tour.tla - for ALL small matrices and tours NearSum <= length <= FarSum, and
     the BigNat definitions agree with native arithmetic.
A  : all matrices/tours of the TLC scope through the real Instance / TourLength (dump replay).
B  : random symmetric/asymmetric matrices n <= 12 with entries at the storage edges
     (127/128, 32767/32768, 2^31-1/2^31, up to 10^12), several input dtypes, validated by
     Trace_TSP in BigNat arithmetic; shipped instances with random tours.
"""
from __future__ import annotations

import itertools
import random

import numpy as np

from .. import core, tlc
from .. import tsp as ts
from ..core import Report, big


def _trace_cfg() -> str:
    return 'SPECIFICATION Spec\nCONSTANT Prop = "C05"\n'


def record(cid: str, M: list, inst, tours: list) -> dict:
    n = inst.n_cities
    obj = ts.mods()["TourLength"](inst)
    arr = np.asarray(inst)
    rec = {"id": cid, "n": n, "M": [[big(int(v)) for v in row] for row in M],
           "stored": [[big(int(arr[i, j])) if int(arr[i, j]) >= 0 else [-1] for j in range(n)] for i in range(n)],
           "sym": 1 if inst.is_symmetric else 0, "dtype": str(inst.dtype),
           "lb": big(int(obj.lower_bound())), "ub": big(int(obj.upper_bound())), "tours": []}
    for x in tours:
        xa = np.array(x, dtype=np.int64)
        v = int(obj.evaluate(xa))
        rec["tours"].append({"x": [int(c) + 1 for c in x], "len": big(v) if v >= 0 else [-1]})
    return rec


EDGES = [127, 128, 255, 256, 32767, 32768, 65535, 65536, 2 ** 31 - 1, 2 ** 31, 2 ** 32 - 1, 2 ** 32,
         10 ** 12]


def run(prop: str, tier: str, seed: int) -> int:
    rep = Report(prop, tier, seed)
    rng = random.Random(seed * 982451653 + 5)
    scope = {"quick": [(3, 2)], "thorough": [(3, 2), (4, 1)]}[tier]
    cases = []
    n_gen = 0
    for n, md in scope:
        cfg = f"SPECIFICATION Spec\nCONSTANTS N = {n}\n MaxDist = {md}\nINVARIANT BoundsEnclose\nINVARIANT BigAgrees\n"
        dump = tlc.work_dir("gen") / "tour.dump"
        try:
            res = tlc.run("tsp/MC_Tour", cfg_text=cfg, workers=16, timeout=900, dump=str(dump))
            rep.add_mc(f"MC_Tour n={n} distances 0..{md}", res)
            groups = {}
            for st in tlc.read_dump(dump):
                key = tuple(tuple(r) for r in st["M"])
                groups.setdefault(key, []).append([v - 1 for v in st["x"]])
            for key, tours in groups.items():
                M = [list(r) for r in key]
                n_gen += len(tours)
                try:
                    inst = ts.make_instance(M)
                except ValueError as ex:
                    rep.violations.append(core.Verdict(f"gen-{len(cases)}-{n_gen}", "constructor-rejects-valid-matrix",
                                                       {"M": M, "error": str(ex)[:160]}))
                    continue
                cases.append(record(f"gen-{len(cases)}", M, inst, tours))
        finally:
            import shutil
            shutil.rmtree(dump.parent, ignore_errors=True)
    rep.family("tlc-generated-matrices-x-tours", n_gen, n_gen)
    rep.nontrivial += n_gen
    rep.exhaustive = True
    if cases:
        rep.samples.append({"family": "tlc-generated", **{k: cases[-1][k] for k in ("n", "M", "sym", "dtype", "lb", "ub")},
                            "tours": cases[-1]["tours"][:2]})
    # ---- (B)
    n_b = {"quick": 400, "thorough": 3000}[tier]
    for k in range(n_b):
        n = rng.randint(2, 12)
        sym = rng.random() < 0.5
        edge = rng.choice(EDGES + [3, 10, 1000])
        style = rng.random()
        M = ts.random_matrix(rng, n, edge, sym, zeros=rng.choice([0.0, 0.1, 0.3]))
        if style < 0.5:     # put the edge value itself (and its neighbours) into the matrix
            for _ in range(rng.randint(1, 3)):
                i, j = rng.randrange(n), rng.randrange(n)
                if i != j:
                    M[i][j] = max(0, edge + rng.choice([-1, 0, 0]))
                    if sym:
                        M[j][i] = M[i][j]
        if style > 0.8 and not sym and n >= 3:   # asymmetric in exactly one pair not touching the last city
            i, j = sorted(rng.sample(range(n - 1), 2))
            for a in range(n):
                for b in range(a):
                    M[a][b] = M[b][a]
            M[i][j] = M[j][i] + 1
        for i in range(n):      # the domain of the constructor: every city has a neighbour at positive distance
            if max(M[i]) == 0:  # (the symmetrisation above may have emptied a row)
                M[i][(i + 1) % n] = M[(i + 1) % n][i] = 1
        hi = max(max(r) for r in M)
        cand = [np.int64, np.uint64] + ([np.int32] if hi < 2 ** 31 else []) + ([np.int16] if hi < 2 ** 15 else []) \
            + ([np.uint8] if hi < 2 ** 8 else [])
        all_tours = n <= 5 and rng.random() < 0.3
        user_lb, mult = 0, 1
        if all_tours and rng.random() < 0.7:
            # a caller-supplied (valid) lower bound and a range multiplier: the constructor combines them with its own
            best = min(sum(M[p[i]][p[(i + 1) % n]] for i in range(n)) for p in itertools.permutations(range(n)))
            user_lb = max(0, best - rng.choice([0, 0, 1, rng.randint(0, max(1, best))]))
            mult = rng.choice([1, 1, 2, 7])
        try:
            src = np.array(M, dtype=rng.choice(cand))
            inst = ts.mods()["Instance"]("v", user_lb, src, mult)
            # the constructor copies the matrix: what the caller does with his own array afterwards (here: he
            # overwrites it, as when the buffer is reused for the next instance) must not reach the instance
            src[:, :] = src.T.copy() + 1 if rng.random() < 0.5 else 0
        except (ValueError, TypeError) as ex:
            rep.violations.append(core.Verdict(f"rand-{k}", "constructor-rejects-valid-matrix",
                                               {"M": [[big(v) for v in r] for r in M], "user_lb": user_lb,
                                                "mult": mult, "error": str(ex)[:160], "tours": []}))
            continue
        if all_tours:
            tours = [list(p) for p in itertools.permutations(range(n))]
        else:
            tours = []
            for _ in range(rng.randint(2, 6)):
                p = list(range(n))
                rng.shuffle(p)
                tours.append(p)
        cases.append(record(f"rand-{k}", M, inst, tours))
        cases[-1]["user_lb"], cases[-1]["mult"] = big(user_lb), mult
        rep.family("random-matrices" + ("+caller-supplied-lower-bound" if user_lb else ""), len(tours), len(tours))
        rep.nontrivial += len(tours)
        if len(rep.samples) < 3 and hi > 2 ** 31:
            c = cases[-1]
            rep.samples.append({"family": "random", "n": n, "max_entry": hi, "dtype": c["dtype"], "sym": c["sym"],
                                "first_tour": c["tours"][0]})
    # many cities: tour and index storage beyond the 8-bit ranges
    for n in ([129, 257] if tier == "quick" else [127, 128, 129, 255, 256, 257, 400]):
        M = ts.random_matrix(rng, n, rng.choice([5, 50, 40000]), rng.random() < 0.5)
        tours = []
        for _ in range(3):
            p = list(range(n))
            rng.shuffle(p)
            tours.append(p)
        tours.append(list(range(n - 1, -1, -1)))
        cases.append(record(f"many-cities-{n}", M, ts.make_instance(M), tours))
        rep.family("many-cities(127..400)", len(tours), len(tours))
        rep.nontrivial += len(tours)
    # shipped
    I = ts.mods()["Instance"]
    names = [nm for nm in I.list_resources() if I.from_resource(nm).n_cities <= (60 if tier == "quick" else 130)] \
        if tier == "thorough" else ["gr17", "gr21", "gr24", "fri26", "bays29", "br17", "ftv33", "ulysses16", "burma14",
                                    "att48"]
    for nm in names:
        inst = I.from_resource(nm)
        n = inst.n_cities
        M = [[int(inst[i, j]) for j in range(n)] for i in range(n)]
        tours = []
        for _ in range(3):
            p = list(range(n))
            rng.shuffle(p)
            tours.append(p)
        # the shipped instances carry published lower bounds: rebuild them with lb = 0 as well
        cases.append(record(f"shipped-{nm}", M, ts.make_instance(M), tours))
        rep.family("shipped-matrices(own bounds)", len(tours), len(tours))
        # ... and as shipped: the published optimum is the lower bound
        cases.append(record(f"resource-{nm}", M, inst, tours))
        rep.family("shipped-instances(published bounds)", len(tours), len(tours))
    vs = core.validate("tsp/Trace_TSP", cases, cfg_text=_trace_cfg(), shards=14)
    core.classify(rep, vs, {c["id"]: c for c in cases}, family="recorded")
    rep.traces += sum(len(c["tours"]) for c in cases)
    rep.evaluations = rep.traces
    rep.rule = ("(a) all matrices (zero diagonal, positive entry per row) and all tours of the TLC scope "
                f"{scope}; (b) seeded random matrices n<=12 with entries at storage-type edges up to 10^12, "
                "several input dtypes, single asymmetric pairs; shipped matrices rebuilt without published bound. "
                "non-trivial = every (matrix, tour) pair.")
    return core.finish(rep)


def replay(prop: str, case: dict) -> dict:
    M = [[core.unbig(v) for v in row] for row in case["M"]]
    if case.get("id", "").startswith("resource-"):
        inst = ts.mods()["Instance"].from_resource(case["id"][len("resource-"):])
    else:
        try:
            inst = ts.mods()["Instance"]("v", core.unbig(case["user_lb"]) if "user_lb" in case else 0,
                                         np.array(M, dtype=np.int64), case.get("mult", 1))
        except (ValueError, TypeError) as ex:
            return {"clause": "constructor-rejects-valid-matrix", "case": {**case, "error": str(ex)[:160]}}
    rec = record("replay", M, inst, [[c - 1 for c in t["x"]] for t in case["tours"]])
    vs = core.validate("tsp/Trace_TSP", [rec], cfg_text=_trace_cfg())
    return {"clause": vs["replay"], "case": rec}
