"""C11: the figure-of-merit objective is a pure function of the parameters: it returns what a
fresh objective returns, whatever was evaluated before and whatever mode switches happened;
training data grows only in raw evaluations (and is cleared only by initialize()).

MC : spec/dyn/FoM.tla (MC_FoM) - all histories up to a length over {initialize, set_raw,
     set_model, get_differentials, evaluate(x)}: collected data is a function of the raw
     evaluations since the last initialize and changes nowhere else.
A  : every maximal history TLC enumerated is executed on a real objective (both variants) over a
     small test system; B: long random histories on the test system and on bundled
     system/controller pairs (incl. the coupled oscillators whose figure of merit uses only part
     of the state).  Trace_FoM compares each returned value bit-wise with a fresh objective's,
     checks the range, 'between min and max of the per-case merits' (computed by the driver from
     run_ode + j_from_ode with the documented state_dims_in_j and gamma) and the row counts of
     the two collected data lists after every action.
"""
from __future__ import annotations

import math
import random

import numpy as np

from .. import core, tlc
from ..core import Report, f64, small


def _eq_test(state, _t, c, out):
    out[0] = -0.5 * state[0] + state[1] + c[0]
    out[1] = -state[0] - 0.25 * state[1]


def _eq_model(state, _t, c, out):
    out[0] = -state[0] + 0.5 * c[0]
    out[1] = -0.5 * state[1]


def _ctrl_test(state, _t, params, out):
    out[0] = float(params[0]) * float(state[0]) + float(params[1]) * float(state[1])


def test_instance(steps: int = 20):
    from moptipyapps.dynamic_control.controller import Controller
    from moptipyapps.dynamic_control.instance import Instance
    from moptipyapps.dynamic_control.system import System
    starts = np.array([[1.0, 0.0], [0.5, -0.5], [-1.0, 2.0]])
    sysm = System("verif", 2, 1, 2, 2, 0.125, starts[:1].copy(), starts, 10, 2.0, steps, 2.0)
    sysm.equations = _eq_test      # type: ignore
    ctl = Controller("lin2", 2, 1, 2, _ctrl_test)
    return Instance(sysm, ctl)


XS = {"a": [0.25, -0.5], "b": [-1.0, 0.125], "c": [0.0, 0.0],
      "bad1": [math.nan, 0.0],            # controller output NaN already for the first training case
      "bad2": None}                       # filled per instance: fine for case 1, invalid for case 2


class Harness:
    def __init__(self, inst, variant: str, models: dict, xs: dict, supports: bool = True) -> None:
        from moptipyapps.dynamic_control.objective import FigureOfMerit, FigureOfMeritLE
        self.cls = FigureOfMerit if variant == "mean" else FigureOfMeritLE
        self.variant = variant
        self.inst = inst
        self.models = models
        self.xs = xs
        self.supports = supports
        self.obj = self.cls(inst, supports)
        self.fresh = {}
        s = inst.system
        self.ncases = len(s.training_starting_states)
        self.rowsper = s.training_steps - 1

    def case_merits(self, x) -> list:
        from moptipyapps.dynamic_control.ode import j_from_ode, run_ode
        s = self.inst.system
        out = []
        for st in s.training_starting_states:
            with np.errstate(all="ignore"):
                o = run_ode(st, s.equations, self.inst.controller.controller, np.array(x, dtype=float),
                            self.inst.controller.control_dims, s.training_steps, s.training_time)
                out.append(float(j_from_ode(o, s.state_dims, s.state_dims_in_j, s.gamma)))
        return out

    def fresh_for(self, xn: str, mode: str) -> dict:
        key = (xn, mode)
        if key not in self.fresh:
            f = self.cls(self.inst, True)
            f.initialize()
            if mode != "raw":
                f.set_model(self.models[mode])
            with np.errstate(all="ignore"):
                v = float(f.evaluate(np.array(self.xs[xn], dtype=float)))
            rec = {"x": xn, "mode": mode, "v": f64(v), "lo": f64(0.0), "hi": f64(0.0),
                   "failat": self.ncases + 1, "js": [], "vs": []}
            if mode == "raw":
                js = self.case_merits(self.xs[xn])
                fail = next((i + 1 for i, j in enumerate(js) if not (0.0 <= j <= 1e100)), self.ncases + 1)
                rec["failat"] = fail
                if fail > self.ncases:
                    k = 8 if self.variant == "mean" else 512
                    lo, hi = min(js), max(js)
                    for _ in range(k):
                        lo = float(np.nextafter(lo, -math.inf))
                        hi = float(np.nextafter(hi, math.inf))
                    rec["lo"], rec["hi"] = f64(lo), f64(hi)
                rec["case_merits"] = [repr(j) for j in js]
                if fail > self.ncases and all(j >= 0 for j in js):
                    from fractions import Fraction
                    fr = [Fraction(j) for j in js] + [Fraction(v)]
                    den = max(q.denominator for q in fr)       # a power of two
                    if den.bit_length() < 900:
                        rec["js"] = [core.big(int(q * den)) for q in fr[:-1]]
                        rec["vs"] = core.big(int(fr[-1] * den))
            self.fresh[key] = rec
        return self.fresh[key]

    def rows(self) -> tuple:
        name = "_FigureOfMerit__collection_"
        sc = getattr(self.obj, name + "sc")
        df = getattr(self.obj, name + "df")
        if sc is None or df is None:      # an objective without model support keeps no lists
            return 0, 0
        return small(sum(len(a) for a in sc)), small(sum(len(a) for a in df))

    def run(self, cid: str, hist: list) -> dict:
        steps = []
        mode = "raw"
        for a in hist:
            st = {"a": a[0], "x": "", "m": "", "v": f64(0.0)}
            if a[0] == "init":
                self.obj.initialize()
                mode = "raw"
            elif a[0] == "raw":
                self.obj.set_raw()
                mode = "raw"
            elif a[0] == "model" and not self.supports:
                st["m"] = a[1]
                try:
                    self.obj.set_model(self.models[a[1]])
                    st["refused"] = 0
                    mode = a[1]       # (it was accepted: whatever follows is judged by the specification)
                except ValueError:
                    st["refused"] = 1
            elif a[0] == "diff" and not self.supports:
                try:
                    self.obj.get_differentials()
                    st["refused"] = 0
                except ValueError:
                    st["refused"] = 1
            elif a[0] == "model":
                self.obj.set_model(self.models[a[1]])
                mode = a[1]
                st["m"] = a[1]
            elif a[0] == "diff":
                if self.rows()[0] > 0:
                    try:
                        sc, df = self.obj.get_differentials()
                        if len(sc) != len(df):
                            st["raised"] = "get_differentials-row-mismatch"
                    except (ValueError, IndexError) as ex:
                        st["raised"] = "get_differentials:" + type(ex).__name__
            else:
                self.fresh_for(a[1], mode)
                with np.errstate(all="ignore"):
                    v = float(self.obj.evaluate(np.array(self.xs[a[1]], dtype=float)))
                st.update(x=a[1], v=f64(v))
            st["sc"], st["df"] = self.rows()
            steps.append(st)
        return {"id": cid, "ncases": self.ncases, "rowsper": self.rowsper, "variant": self.variant,
                "supports": 1 if self.supports else 0,
                "fresh": list(self.fresh.values()), "steps": steps,
                "history": [list(a) for a in hist]}


def surrogate_case(cid: str, seed: int, budget: int, warm: int, fancy: bool = False) -> dict:
    """Run the real SurrogateOptimizer on a shrunken bundled system and record what it does to its objective."""
    from moptipy.algorithms.so.vector.cmaes_lib import BiPopCMAES
    from moptipy.api.execution import Execution
    from moptipyapps.dynamic_control.controllers.ann import make_ann
    from moptipyapps.dynamic_control.objective import FigureOfMeritLE
    from moptipyapps.dynamic_control.surrogate_optimizer import SurrogateOptimizer
    from moptipyapps.dynamic_control.system import System
    from moptipyapps.dynamic_control.system_model import SystemModel
    from moptipyapps.dynamic_control.systems.stuart_landau import STUART_LANDAU_4 as o
    def pristine():
        sy = System(o.name, o.state_dims, o.control_dims, o.state_dim_mod, o.state_dims_in_j, o.gamma,
                    o.test_starting_states, o.training_starting_states, 10, 2.0, 12, 2.0, o.plot_examples)
        sy.equations = o.equations      # type: ignore
        return sy
    sysm = pristine()
    inst = SystemModel(sysm, make_ann(2, 1, [2]), make_ann(3, 2, [2]))
    obj = FigureOfMeritLE(inst, True)
    base = obj.__class__
    events: list = []

    def rows_of(self):
        sc = getattr(self, "_FigureOfMerit__collection_sc")
        df = getattr(self, "_FigureOfMerit__collection_df")
        return small(sum(len(a) for a in sc)), small(sum(len(a) for a in df))

    def wrap(name, tag):
        orig = getattr(base, name)

        def f(self, *a, **k):
            r = orig(self, *a, **k)
            sc, df = rows_of(self)
            events.append({"a": tag, "v": f64(float(r)) if tag == "eval" else f64(0.0), "sc": sc, "df": df,
                           "_x": np.array(a[0], dtype=float).copy() if tag == "eval" else None})
            return r
        return f
    obj.__class__ = type(base.__name__, (base,), {
        "evaluate": wrap("evaluate", "eval"), "initialize": wrap("initialize", "init"),
        "set_raw": wrap("set_raw", "raw"), "set_model": wrap("set_model", "model"),
        "get_differentials": wrap("get_differentials", "diff")})
    space = inst.controller.parameter_space()
    algo = SurrogateOptimizer(inst, space, obj, warm, 10, None, 8, None, fancy,
                              model_training_algorithm=lambda v: BiPopCMAES(v),
                              controller_training_algorithm=lambda v: BiPopCMAES(v))
    ex = Execution().set_solution_space(space).set_objective(obj).set_algorithm(algo) \
        .set_max_fes(budget).set_rand_seed(seed)
    logdir = None
    if fancy:
        logdir = tlc.work_dir("sur")
        ex.set_log_file(str(logdir / "run.txt"))
    with np.errstate(all="ignore"):
        with ex.execute() as proc:
            fes = int(proc.get_consumed_fes())
            n_before = sum(1 for e in events if e["a"] == "eval")
    if logdir is not None:
        import shutil
        shutil.rmtree(logdir, ignore_errors=True)
    # everything recorded until the process was closed; evaluations made while closing (log writing) are "extra"
    # every real-system value is compared with a fresh objective on a PRISTINE copy of the system
    fresh_inst = SystemModel(pristine(), inst.controller, inst.model)
    collector = FigureOfMeritLE(fresh_inst, True)      # re-collects the training data from scratch
    collector.initialize()
    raw_evals = 0
    mode = "raw"
    for e in events:
        xx = e.pop("_x", None)
        e["fresh"] = f64(0.0)
        e["has_fresh"] = 0
        if e["a"] in ("init", "raw"):
            mode = "raw"
        elif e["a"] == "model":
            mode = "model"
        elif e["a"] == "eval" and mode == "raw":
            raw_evals += 1
            fo = FigureOfMeritLE(fresh_inst, False)
            with np.errstate(all="ignore"):
                e["fresh"] = f64(float(fo.evaluate(xx)))
                collector.evaluate(xx)
            e["has_fresh"] = 1
    # after the run: the objective must still measure the real system
    probe = np.array([0.25, -0.5, 0.125, 0.5, -0.25, 0.75, 0.1, -0.3, 0.2][: space.dimension] +
                     [0.0] * max(0, space.dimension - 9))
    with np.errstate(all="ignore"):
        after = float(base.evaluate(obj, probe))
        want = float(FigureOfMeritLE(fresh_inst, False).evaluate(probe))
    sc, df = rows_of(obj)
    events.append({"a": "eval", "v": f64(after), "sc": sc, "df": df, "fresh": f64(want), "has_fresh": 1})
    raw_evals += 1
    # content of the recorded training data vs. a from-scratch re-collection (compared by TLC through digests)
    import zlib
    with np.errstate(all="ignore"):
        collector.evaluate(probe)
    got = base.get_differentials(obj) if rows_of(obj)[0] > 0 else (np.zeros(0), np.zeros(0))
    exp = collector.get_differentials()
    crc = [small(zlib.crc32(np.ascontiguousarray(a).tobytes()) & 0x7FFFFFFF) for a in (got[0], got[1], exp[0], exp[1])]
    extra = raw_evals - fes          # the probe (1) plus at most one re-evaluation of the best when closing
    return {"id": cid, "steps": events, "fes": small(fes), "budget": budget,
            "extra": small(extra) if extra in (1, 2) else 0, "n_events": len(events), "fancy_logs": fancy,
            "data_crc": crc[:2], "fresh_crc": crc[2:]}


def find_bad2(inst) -> list:
    """A parameter vector whose first training case is fine and whose second is invalid: the controller is
    linear, so choose params with p . s1 finite/small but make the merit of case 2 overflow 1e100."""
    # case 2 start = [0.5, -0.5]; case 1 start = [1, 0]: p = [0, 1e60] keeps case 1 at zero control initially...
    # simplest robust choice: a NaN only when the second state component is negative at t = 0
    return [0.0, 0.0]


def run(prop: str, tier: str, seed: int) -> int:
    rep = Report(prop, tier, seed)
    rng = random.Random(seed * 5915587277 + 11)
    maxlen = {"quick": 3, "thorough": 4}[tier]
    cfg = ('SPECIFICATION Spec\nCONSTANTS Xs = {"a", "b", "bad1", "bad2"}\n Models = {"m1"}\n NCases = 3\n'
           ' FailAt <- FailAtDef\n MaxLen = %d\n Supports = TRUE\nINVARIANT DataIsFunctionOfHistory\nINVARIANT NoSupportIsInert\n'
           'PROPERTY GrowsOnlyInRaw\n' % (maxlen + 2))
    res = tlc.run("dyn/MC_FoM", cfg_text=cfg, workers=16, timeout=900)
    rep.add_mc(f"FoM history machine, all histories up to length {maxlen + 2}", res)
    res = tlc.run("dyn/MC_FoM", cfg_text=cfg.replace("Supports = TRUE", "Supports = FALSE"), workers=16, timeout=900)
    rep.add_mc(f"FoM history machine without model support, all histories up to length {maxlen + 2}", res)
    cfg = cfg.replace("MaxLen = %d" % (maxlen + 2), "MaxLen = %d" % maxlen)
    dump = tlc.work_dir("gen") / "fom.dump"
    hists = []
    try:
        res = tlc.run("dyn/MC_FoM", cfg_text=cfg, workers=8, timeout=900, dump=str(dump))
        rep.add_mc(f"FoM history generator, length {maxlen}", res)
        for st in tlc.read_dump(dump):
            if len(st["hist"]) == maxlen:
                hists.append([tuple(a) for a in st["hist"]])
    finally:
        import shutil
        shutil.rmtree(dump.parent, ignore_errors=True)

    # the test system: a controller that is invalid exactly for the second training case ("bad2")
    def ctrl_bad2(state, t, params, out):
        if params[0] != params[0]:
            out[0] = math.nan                  # "bad1": invalid from the very first training case
        elif params[0] > 100.0 and state[1] < 0.0 and t <= 0.0:
            out[0] = math.nan
        else:
            _ctrl_test(state, t, params if params[0] <= 100.0 else np.array([0.25, -0.5]), out)
    cases = []
    for variant in ("mean", "le"):
        inst = test_instance(20)
        inst.controller.controller = ctrl_bad2          # type: ignore
        xs = dict(XS)
        xs["bad2"] = [1000.0, 0.0]
        hs = hists if tier == "thorough" or len(hists) <= 400 else rng.sample(hists, 400)
        h = Harness(inst, variant, {"m1": _eq_model}, xs)
        for k, hist in enumerate(hs):
            h.obj = h.cls(inst, True)        # a new object per history; fresh values are shared
            cases.append(h.run(f"tlc-{variant}-{k}", hist))
        rep.family(f"tlc-generated-histories-{variant}", len(hs), len(hs))
        rep.nontrivial += len(hs)
        # the same histories on objectives WITHOUT model support (the default): set_model / get_differentials are
        # refused and must leave the objective on the real equations
        h0 = Harness(inst, variant, {"m1": _eq_model}, xs, supports=False)
        h0.fresh = h.fresh
        hs0 = [q for q in hs if any(a[0] in ("model", "diff") for a in q)]
        hs0 = hs0 if len(hs0) <= 120 else rng.sample(hs0, 120)
        for k, hist in enumerate(hs0):
            h0.obj = h0.cls(inst, False)
            cases.append(h0.run(f"nosupport-{variant}-{k}", hist))
        rep.family(f"histories-without-model-support-{variant}", len(hs0), len(hs0))
        rep.nontrivial += len(hs0)
        # ... and with the "perfect model": the model handed to set_model is the real system's own equations
        hp = Harness(inst, variant, {"m1": inst.system.equations}, xs)
        hsp = [q for q in hs if any(a[0] == "model" for a in q) and any(a[0] == "eval" for a in q)]
        hsp = hsp if len(hsp) <= 30 else rng.sample(hsp, 30)
        for k, hist in enumerate(hsp):
            hp.obj = hp.cls(inst, True)
            cases.append(hp.run(f"perfect-model-{variant}-{k}", list(hist) + [("raw",), ("eval", "a"), ("diff",)]))
        rep.family(f"histories-with-the-real-equations-as-model-{variant}", len(hsp), len(hsp))
        rep.nontrivial += len(hsp)
        # long random histories on one object
        for k in range({"quick": 25, "thorough": 250}[tier]):
            hist = []
            for _ in range(rng.randint(6, 14)):
                u = rng.random()
                hist.append(("eval", rng.choice(["a", "b", "c", "bad1", "bad2"])) if u < 0.55 else
                            rng.choice([("init",), ("raw",), ("model", "m1"), ("diff",)]))
            h.obj = h.cls(inst, True)
            cases.append(h.run(f"rand-{variant}-{k}", hist))
            rep.family(f"random-histories-{variant}", 1, 1)
            rep.nontrivial += 1
    rep.exhaustive = True
    # bundled pairs (few, they are slow)
    from moptipyapps.dynamic_control.controllers.ann import anns
    from moptipyapps.dynamic_control.controllers.linear import linear
    from moptipyapps.dynamic_control.instance import Instance
    from moptipyapps.dynamic_control.systems.lorenz import LORENZ_4
    from moptipyapps.dynamic_control.systems.stuart_landau import STUART_LANDAU_4
    from moptipyapps.dynamic_control.systems.three_coupled_oscillators import THREE_COUPLED_OSCILLATORS
    pairs = [(STUART_LANDAU_4, linear), (THREE_COUPLED_OSCILLATORS, lambda s: anns(s)[0]), (LORENZ_4, linear)]
    for k, (sysm, mk) in enumerate(pairs if tier == "thorough" else pairs[:2]):
        ctl = mk(sysm)
        inst = Instance(sysm, ctl)
        xs = {"a": [rng.uniform(-1, 1) for _ in range(ctl.param_dims)],
              "b": [rng.uniform(-4, 4) for _ in range(ctl.param_dims)]}
        variant = "mean" if k % 2 == 0 else "le"

        def model(state, t, c, out, _e=sysm.equations):
            _e(state, t, c, out)
            out *= 0.5
        h = Harness(inst, variant, {"m1": model}, xs)
        hist = [("eval", "a"), ("eval", "b"), ("model", "m1"), ("eval", "a"), ("raw",), ("eval", "a"), ("diff",),
                ("init",), ("eval", "b"), ("diff",), ("eval", "b")]
        cases.append(h.run(f"bundled-{sysm.name}-{ctl.name}", hist))
        rep.family("bundled-pairs", 1, 1)
        rep.nontrivial += 1
    for c in cases:
        for st in c["steps"]:
            if "raised" in st:
                rep.violations.append(core.Verdict(c["id"], "action-raised:" + st.pop("raised"), c))
    # ---- the surrogate optimizer's protocol around its objective
    res = tlc.run("dyn/Surrogate", cfg_text="SPECIFICATION Spec\nCONSTANTS Budget = 6\n Warmup = 2\n InnerMax = 3\n"
                  "INVARIANT RestoredAtEnd\nINVARIANT WithinBudget\nPROPERTY DataNeverShrinks\n"
                  "PROPERTY GrowsOnlyOnRealSystem\nPROPERTY BudgetedOnRealSystem\nPROPERTY Terminates\n",
                  workers=4, timeout=300)
    rep.add_mc("Surrogate optimizer protocol machine", res)
    sur = []
    import signal

    class _Slow(Exception):
        pass

    fired = {"v": False}

    def _alarm(_s, _f):
        fired["v"] = True
        raise _Slow
    for k in range({"quick": 2, "thorough": 6}[tier]):
        warm = rng.choice([3, 4])
        budget = warm + 2 if tier == "quick" else warm + rng.choice([1, 2, 3])
        # a learned model can make the inner simulations arbitrarily slow (seen: 1 s .. 6 min for the same
        # setup): every run is guarded by a wall clock and another seed is tried if it is too slow
        done = False
        for attempt in range({"quick": 4, "thorough": 6}[tier]):
            old = signal.signal(signal.SIGALRM, _alarm)
            fired["v"] = False
            signal.alarm({"quick": 45, "thorough": 240}[tier])
            try:
                sur.append(surrogate_case(f"surrogate-{k}", rng.randrange(1, 1 << 40), budget, warm,
                                          fancy=(k % 2 == 1)))
                done = True
            except Exception as ex_:      # noqa: BLE001 - an interrupted process may raise its own errors while unwinding
                if not fired["v"]:
                    # the run itself failed (e.g. moptipy's end-of-run consistency check of the best value)
                    rep.violations.append(core.Verdict(
                        f"surrogate-{k}", "surrogate-run-raises:" + type(ex_).__name__,
                        {"error": str(ex_)[:300], "fancy_logs": k % 2 == 1, "budget": budget, "warmup": warm}))
                    done = True
                    sur.append(None)
                rep.notes.append(f"surrogate run {k} attempt {attempt} abandoned by the wall-clock guard (slow "
                                 "learned model); not judged, next seed tried")
            finally:
                signal.alarm(0)
                signal.signal(signal.SIGALRM, old)
            if done:
                break
        if not done:
            continue
        if sur[-1] is None:
            sur.pop()
            continue
        rep.family("surrogate-optimizer-runs", 1, 1)
        rep.nontrivial += 1
        rep.transitions += sur[-1]["n_events"]
    vs2 = core.validate("dyn/Trace_Sur", sur, shards=4)
    core.classify(rep, vs2, {c["id"]: c for c in sur}, family="surrogate")
    rep.traces += len(sur)
    vs = core.validate("dyn/Trace_FoM", cases, shards=14)
    core.classify(rep, vs, {c["id"]: c for c in cases}, family="recorded")
    rep.traces += len(cases)
    rep.transitions += sum(len(c["steps"]) for c in cases)
    rep.evaluations = rep.traces
    rep.samples.append({k: v for k, v in cases[-1].items() if k != "fresh"} | {"fresh": cases[-1]["fresh"][:2]})
    rep.samples.append({"history": cases[0]["history"], "steps": cases[0]["steps"]})
    rep.rule = (f"(a) all histories of length {maxlen} over initialize/set_raw/set_model/get_differentials/evaluate(4 "
                "parameter vectors, two of them failing at case 1 / case 2), both objective variants, each on a new "
                "object of a 2-state test system; (b) random histories of length 6..14; (c) bundled system/controller "
                "pairs. non-trivial = every history.")
    rep.assumptions = ["row counts of the two private collection lists are read through the name-mangled attributes",
                       "slack of 8 (mean) / 512 (log-exp) ulps around min/max of the per-case merits"]
    return core.finish(rep)


def replay(prop: str, case: dict) -> dict:
    """Re-validate the recorded history (values, row counts) against the specification."""
    rec = dict(case)
    rec["id"] = "replay"
    mod = "dyn/Trace_Sur" if "budget" in rec else "dyn/Trace_FoM"
    if "steps" not in rec:
        return {"clause": ["recorded-failure:" + str(rec.get("error", ""))[:80]], "case": rec}
    vs = core.validate(mod, [rec])
    return {"clause": vs["replay"], "case": rec, "mode": "revalidated-recorded-case"}
