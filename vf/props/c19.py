"""C19: text forms round-trip: compact instance strings, packing / game plan / ordering texts,
CSV tables of packing results and packing statistics.

MC : spec/text/MC_Text.tla - the token grammars invert on all small objects.
A/B: instances of the TLC scope (via the IBL generator families), random / degenerate / storage
     edge / tall-bin instances -> to_compact_str -> from_compact_str; packings, game plans and
     orderings -> text -> back; heterogeneous sets of PackingResult / PackingStatistics records
     (differing algorithms, optimised objectives, encodings, with and without evaluation
     budgets) produced by tiny real runs -> to_csv -> from_csv.  Trace_Text checks the token
     grammar, equality of the complete field projections and the derived attributes.
"""
from __future__ import annotations

import dataclasses
import random
import shutil

import numpy as np

from .. import binpack as bp
from .. import core, tlc
from ..core import Report, small


def inst_proj(inst) -> dict:
    return {"W": small(inst.bin_width), "H": small(inst.bin_height),
            "items": [[small(inst[i, 0]), small(inst[i, 1]), small(inst[i, 2])] for i in range(inst.n_different_items)],
            "n_items": small(inst.n_items), "area": small(inst.total_item_area), "lb": small(inst.lower_bound_bins),
            "dtype": str(inst.dtype)}


def inst_case(cid: str, inst) -> dict:
    from moptipyapps.binpacking2d.instance import Instance
    text = inst.to_compact_str()
    parts = text.split(";")
    rec = {"id": cid, "kind": "inst", "text": text, **{k: v for k, v in inst_proj(inst).items() if k in ("W", "H", "items")},
           "orig": inst_proj(inst), "ok": 1, "name_ok": 1}
    try:
        rec["tok"] = {"head": [small(int(v)) for v in parts[1:4]],
                      "items": [[small(int(v)) for v in p.split(",")] for p in parts[4:]]}
    except ValueError:
        rec["tok"] = {"head": [0, 0, 0], "items": []}
    try:
        back = Instance.from_compact_str(text)
        rec["back"] = inst_proj(back)
        rec["name_ok"] = 1 if (back.name == inst.name == parts[0]) else 0
    except ValueError as ex:
        rec["ok"] = 0
        rec["back"] = rec["orig"]
        rec["error"] = str(ex)[:120]
    return rec


def packlib_case(cid: str, inst, rng: random.Random, workdir) -> dict:
    """The instance as a 2DPackLib file (items in random order, demand 1 written or left out) -> from_2dpacklib."""
    from moptipyapps.binpacking2d.instance import Instance
    items = [[int(inst[i, 0]), int(inst[i, 1]), int(inst[i, 2])] for i in range(inst.n_different_items)]
    order = items[:]
    rng.shuffle(order)
    lines = [str(len(order)), f"{inst.bin_width} {inst.bin_height}"]
    for k, (w, h, c) in enumerate(order, 1):
        lines.append(f"{k} {w} {h}" if (c == 1 and rng.random() < 0.5) else f"{k} {w} {h} {c}")
    name = f"pl{cid.split('-')[-1]}"
    path = workdir / f"{name.upper() if rng.random() < 0.3 else name}.ins2d"
    path.write_text("\n".join(lines) + rng.choice(["", "\n"]))
    ref = Instance(name, inst.bin_width, inst.bin_height, sorted(items))
    rec = {"id": cid, "kind": "packlib", "text": lines, "W": small(ref.bin_width), "H": small(ref.bin_height),
           "items": inst_proj(ref)["items"], "orig": inst_proj(ref), "back": inst_proj(ref), "ok": 1, "name_ok": 1}
    try:
        back = Instance.from_2dpacklib(str(path))
        rec["back"] = inst_proj(back)
        rec["name_ok"] = 1 if back.name == name else 0
    except (ValueError, IndexError, TypeError) as ex:
        rec["ok"] = 0
        rec["error"] = f"{type(ex).__name__}: {str(ex)[:120]}"
    return rec


def packing_log_case(cid: str, inst, rng: random.Random, workdir) -> dict:
    """A tiny real run on `inst` writes its log; the packing in the log, read back with Packing.from_log(file, inst),
    must be the best packing of the run (and the RESULT_Y section must be its flattened matrix)."""
    from moptipyapps.binpacking2d import experiment as bexp
    from moptipyapps.binpacking2d.packing import Packing
    from .c02 import objective_classes
    enc = rng.choice([bp._mods()[1], bp._mods()[2]])
    ex = bexp.rls(inst, enc, rng.choice(objective_classes()))
    ex.set_max_fes(rng.choice([4, 12]))
    log = workdir / f"{cid}.txt"
    ex.set_rand_seed(rng.randrange(1, 1 << 40)).set_log_file(str(log))
    with ex.execute() as proc:
        y = ex._solution_space.create()
        proc.get_copy_of_best_y(y)
    rows = bp.rows_of(y)
    text = log.read_text()
    sec = text.split("BEGIN_RESULT_Y\n")[1].split("\nEND_RESULT_Y")[0] if "BEGIN_RESULT_Y" in text else ""
    try:
        tok = [small(int(v)) for v in sec.split("\n\n")[0].replace("\n", ";").split(";") if v.strip() != ""]
    except ValueError:
        tok = []
    rec = {"id": cid, "kind": "rows", "what": "packing-log", "orig": rows, "tok": tok, "ok": 1, "back": rows,
           "instance": inst.to_compact_str()}
    try:
        back = Packing.from_log(str(log), inst)
        rec["back"] = bp.rows_of(back)
        if back.instance is not inst or int(back.n_bins) != int(y.n_bins):
            rec["back"] = [[-1] * 6 for _ in rows]      # a packing bound to another instance / bin count
    except (ValueError, TypeError, KeyError, IndexError) as ex_:
        rec["ok"] = 0
        rec["error"] = f"{type(ex_).__name__}: {str(ex_)[:160]}"
    return rec


def rows_case(cid: str, what: str, orig: list, text: str, parse) -> dict:
    first = text.lstrip().split("\n\n")[0] if what != "packing" else text
    try:
        tok = [small(int(v)) for v in first.replace("\n", ";").split(";") if v.strip() != ""]
    except ValueError:
        tok = []
    rec = {"id": cid, "kind": "rows", "what": what, "orig": orig, "tok": tok, "ok": 1, "back": orig}
    try:
        rec["back"] = [[small(int(v)) for v in r] for r in np.asarray(parse(text)).reshape(len(orig), -1).tolist()]
    except (ValueError, TypeError) as ex:
        rec["ok"] = 0
        rec["error"] = str(ex)[:120]
    return rec


def dc_proj(obj) -> list:
    """All fields of an evaluation record, nested dataclasses and mappings flattened, as sorted key/value strings."""
    out = {}

    def walk(prefix, v):
        # moptipy's EndStatistics (a dependency, not under test) may return a budget that was a plain number
        # as degenerate sample statistics after a CSV round trip; both forms are normalised to the number
        if prefix.endswith(("max_fes.", "max_time_millis.")) and dataclasses.is_dataclass(v) \
                and getattr(v, "minimum", 0) == getattr(v, "maximum", 1):
            out[prefix[:-1]] = repr(v.minimum)
            return
        if dataclasses.is_dataclass(v) and not isinstance(v, type):
            for f in dataclasses.fields(v):
                walk(f"{prefix}{f.name}.", getattr(v, f.name))
        elif isinstance(v, dict) or hasattr(v, "items") and callable(v.items):
            for k in sorted(v.keys()):
                walk(f"{prefix}{k}.", v[k])
        else:
            out[prefix[:-1]] = repr(v)
    walk("", obj)
    return [[k, out[k]] for k in sorted(out)]


def synthetic_results(results: list, rng: random.Random, n_bin_bounds: int) -> list:
    """Representable records that tiny real runs never produce: fractional and unbounded (+inf) objective bounds,
    and a caller-chosen family of bin bounds of the given size.  Bounds are a function of (instance, key), as the
    statistics require; fractions are never integer-valued (moptipy reads "3.0" back as the int 3)."""
    from moptipyapps.binpacking2d import packing_result as pr
    mods: dict = {}
    keys = sorted(results[0].bin_bounds.keys())
    keep = sorted(rng.sample(keys, min(n_bin_bounds, len(keys))))
    out = []
    for r in results:
        ob = dict(r.objective_bounds)
        for k in sorted(ob):
            m = mods.setdefault((r.end_result.instance, k), rng.random())
            if k.endswith(".upperBound"):
                if m < 0.4:
                    ob[k] = float("inf")
                elif m < 0.7:
                    ob[k] = ob[k] + 0.5
            elif m < 0.4:
                ob[k] = ob[k] - 0.25
        ov = dict(r.objectives)
        # an objective of the caller's own that can reach 0 (the seven shipped ones are at least 1)
        ov["waste"] = rng.choice([0, 0, 3, 17, 2.5])
        ob["waste.lowerBound"] = mods.setdefault((r.end_result.instance, "waste.lowerBound"), rng.choice([0, 0, -1.5]))
        ob["waste.upperBound"] = mods.setdefault((r.end_result.instance, "waste.upperBound"),
                                                 rng.choice([1000, float("inf"), 99.5]))
        for k in sorted(ov):     # fractional values of objectives that were evaluated but not optimised
            if k != "waste" and k != r.end_result.objective \
                    and ob[k + ".upperBound"] > r.objective_bounds[k + ".upperBound"] \
                    and rng.random() < 0.5:
                ov[k] = ov[k] + 0.5
        out.append(pr.PackingResult(r.end_result, r.n_items, r.n_different_items, r.bin_width, r.bin_height,
                                    ov, ob, {k: r.bin_bounds[k] for k in keep}))
    return out


def run(prop: str, tier: str, seed: int) -> int:
    rep = Report(prop, tier, seed)
    rng = random.Random(seed * 1000003 + 19)
    res = tlc.run("text/MC_Text", cfg_text="SPECIFICATION Spec\nCONSTANTS MaxV = 2\n MaxItems = 2\n"
                  "INVARIANT InstInverts\nINVARIANT MatInverts\n", workers=8, timeout=600)
    rep.add_mc("MC_Text: grammars invert on all small instances / matrices", res)
    cases = []
    pl_dir = tlc.work_dir("packlib")
    n_logs = 0
    # ---- instances
    n_i = {"quick": 300, "thorough": 3000}[tier]
    for k in range(n_i):
        u = rng.random()
        try:
            if u < 0.3:
                W, H, items = bp.fam_random(rng, 30, 6, 12, 60)
            elif u < 0.5:
                W, H, items = bp.fam_degenerate(rng)
            elif u < 0.65:
                W, H, items = bp.fam_storage_edge(rng)
            elif u < 0.85:      # tall bins with items that only fit rotated
                W = rng.randint(1, 9)
                H = rng.randint(W + 1, 30)
                items = [[rng.randint(W + 1, H), rng.randint(1, W), rng.randint(1, 3)],
                         [rng.randint(1, W), rng.randint(1, H), rng.randint(1, 12)]]
            else:
                W, H, items = bp.fam_dense(rng)
            if k % 25 == 7:       # many copies of small items: the item count alone decides the storage type
                W, H = rng.randint(5, 40), rng.randint(5, 40)
                items = sorted([[rng.randint(1, 3), rng.randint(1, 3), rng.choice([126, 127, 128, 150, 255, 256, 300])],
                                [rng.randint(1, 5), rng.randint(4, 5), rng.choice([1, 2, 130, 33000])]])
            if not items:
                continue
            inst = bp.make_instance(W, H, items, name=f"i{k}")
        except ValueError:
            continue
        if inst.total_item_area >= 2 ** 31:
            continue      # area beyond TLC's native integers: such instances are exercised by C01/C02 (BigNat)
        cases.append(inst_case(f"inst-{k}", inst))
        rep.family("instances", 1, 1)
        if k % 3 == 0:
            cases.append(packlib_case(f"packlib-{k}", inst, rng, pl_dir))
            rep.family("2dpacklib-files", 1, 1)
        # packing text
        if inst.n_items <= 40 and rng.random() < 0.5:
            from moptipyapps.binpacking2d.packing_space import PackingSpace
            sp = PackingSpace(inst)
            st = bp.decode_fresh(inst, rng.choice([1, 2]), bp.random_perm(inst, rng))
            y = sp.create()
            y[:, :] = np.array(st["rows"])
            y.n_bins = st["nb"]
            cases.append(rows_case(f"pack-{k}", "packing", st["rows"], sp.to_str(y), sp.from_str))
            rep.family("packing-texts", 1, 1)
            if n_logs < {"quick": 12, "thorough": 80}[tier] and inst.n_items >= 2:   # (the search space needs 2+ items)
                # the same through a real log file; every third instance carries the NAME of a shipped instance
                li = inst if n_logs % 3 else bp.make_instance(W, H, items, name=rng.choice(["a01", "beng03", "cl01_020_01"]))
                cases.append(packing_log_case(f"packlog-{k}", li, rng, pl_dir))
                rep.family("packing-logs(own instances)", 1, 1)
                n_logs += 1
    from moptipyapps.binpacking2d.instance import Instance
    for nm in rng.sample(list(Instance.list_resources()), {"quick": 25, "thorough": 200}[tier]):
        cases.append(inst_case(f"shipped-{nm}", Instance.from_resource(nm)))
        rep.family("shipped-instances", 1, 1)
    # ---- game plans and orderings
    from .. import ttp as tp
    for k in range({"quick": 60, "thorough": 500}[tier]):
        n = rng.choice([2, 4, 6, 10, 12])
        rounds = rng.choice([1, 2, 3])
        tinst = tp.make_instance(n, rounds, {})
        sp = tp.mods()["GamePlanSpace"](tinst)
        rows = tp.random_plan(rng, n, (n - 1) * rounds, rng.choice(["arbitrary", "consistent", "byes"]))
        y = tp.plan_obj(tinst, rows)
        cases.append(rows_case(f"plan-{k}", "game-plan", rows, sp.to_str(y), sp.from_str))
        rep.family("game-plan-texts", 1, 1)
    from moptipyapps.order1d.instance import Instance as OInst
    from moptipyapps.order1d.space import OrderingSpace
    for k in range({"quick": 40, "thorough": 300}[tier]):
        m = rng.randint(3, 12)
        objs = [rng.randint(0, 2 * m) for _ in range(m)]
        if len(set(objs)) < 2:
            continue
        oi = OInst.from_sequence_and_distance(objs, lambda a, b: abs(a - b), 2, 10, ("v",), lambda a: f"x{a}")
        sp = OrderingSpace(oi)
        p = list(range(oi.n))
        rng.shuffle(p)
        x = sp.create()
        x[:] = p
        cases.append(rows_case(f"order-{k}", "ordering", [p], sp.to_str(x), sp.from_str))
        rep.family("ordering-texts", 1, 1)
    # ---- CSV tables from tiny real runs
    from moptipyapps.binpacking2d import experiment as bexp
    from moptipyapps.binpacking2d import packing_result as pr
    from moptipyapps.binpacking2d import packing_statistics as ps
    from .c02 import objective_classes
    work = tlc.work_dir("csv")
    try:
        for t in range({"quick": 3, "thorough": 12}[tier]):
            base = work / f"t{t}"
            results = []
            names = rng.sample(["a04", "a10", "beng01", "cl02_020_03", "cl01_020_01", "a01", "beng03"], 3)
            for name in names:
                inst = Instance.from_resource(name)
                for _ in range(rng.randint(2, 4)):
                    algo = rng.choice(["rls", "fea"])
                    ocls = rng.choice(objective_classes())
                    enc = rng.choice([bp._mods()[1], bp._mods()[2]])
                    ex = getattr(bexp, algo)(inst, enc, ocls)
                    if rng.random() < 0.6:
                        ex.set_max_fes(rng.choice([16, 40]))
                    else:
                        ex.set_max_fes(1_000_000_000_000, True)
                        ex.set_max_time_millis(rng.choice([30, 60]))
                    sd = rng.randrange(1, 1 << 40)
                    d = base / str(ocls(inst)) / str(enc(inst)) / str(ex._algorithm) / name
                    d.mkdir(parents=True, exist_ok=True)
                    ex.set_rand_seed(sd).set_log_file(str(d / f"{ex._algorithm}_{name}_0x{sd:x}.txt"))
                    with ex.execute():
                        pass
            pr.from_logs(str(base), results.append)
            results.sort(key=lambda r: (r.end_result.algorithm, r.end_result.instance, r.end_result.objective,
                                        r.end_result.encoding, r.end_result.rand_seed))
            for variant, table in (("", results), ("-synthetic", synthetic_results(results, rng, 1 + t % 3))):
                rec = {"id": f"csv-results-{t}{variant}", "kind": "csv", "what": "packing-results",
                       "orig": [dc_proj(r) for r in table], "ok": 1, "back": []}
                try:
                    f = pr.to_csv(table, str(base / f"results{variant}.csv"))
                    back = list(pr.from_csv(str(f)))
                    back.sort(key=lambda r: (r.end_result.algorithm, r.end_result.instance, r.end_result.objective,
                                             r.end_result.encoding, r.end_result.rand_seed))
                    rec["back"] = [dc_proj(r) for r in back]
                except (ValueError, TypeError, KeyError) as ex_:
                    rec["ok"] = 0
                    rec["error"] = f"{type(ex_).__name__}: {str(ex_)[:160]}"
                cases.append(rec)
                stats: list = []
                ps.from_packing_results(table, stats.append)
                key = lambda s: (s.end_statistics.algorithm or "", s.end_statistics.instance or "",
                                 s.end_statistics.objective or "", s.end_statistics.encoding or "")
                stats.sort(key=key)
                rec = {"id": f"csv-statistics-{t}{variant}", "kind": "csv", "what": "packing-statistics",
                       "orig": [dc_proj(r) for r in stats], "ok": 1, "back": []}
                try:
                    f = ps.to_csv(stats, str(base / f"stats{variant}.csv"))
                    back = list(ps.from_csv(str(f)))
                    back.sort(key=key)
                    rec["back"] = [dc_proj(r) for r in back]
                except (ValueError, TypeError, KeyError) as ex_:
                    rec["ok"] = 0
                    rec["error"] = f"{type(ex_).__name__}: {str(ex_)[:160]}"
                cases.append(rec)
            rep.family("csv-tables", 4, 4)
    finally:
        shutil.rmtree(work, ignore_errors=True)
        shutil.rmtree(pl_dir, ignore_errors=True)
    vs = core.validate("text/Trace_Text", cases, shards=14)
    core.classify(rep, vs, {c["id"]: c for c in cases}, family="recorded")
    rep.traces += len(cases)
    rep.evaluations = rep.traces
    rep.nontrivial = len(cases)
    rep.samples.append({k: v for k, v in cases[0].items()})
    rep.samples.append({"id": cases[-1]["id"], "first_record": cases[-1]["orig"][0][:12] if cases[-1]["orig"] else None})
    rep.rule = ("instances: random / degenerate / storage-edge / tall bins with rotate-only items / dense / shipped; "
                "packings of them; game plans n=2..12; orderings; CSV tables of PackingResult and PackingStatistics "
                "from tiny real runs with differing algorithm, optimised objective, encoding and budget kind. "
                "non-trivial = every case.")
    rep.assumptions = ["records are compared through the complete flattened field projection (repr of every leaf)"]
    return core.finish(rep)


def replay(prop: str, case: dict) -> dict:
    """Re-validate the recorded case against the specification (the record holds the input and what the real code
    returned for it; re-executing the code on exactly this input is what re-running the check with the same seed does)."""
    rec = dict(case)
    rec["id"] = "replay"
    vs = core.validate("text/Trace_Text", [rec])
    return {"clause": vs["replay"], "case": rec, "mode": "revalidated-recorded-case"}
