"""C20: ordering instances merge zero-distance objects, record representative indices, use
|i-j| as distances and rank-based flows (zero on the diagonal and beyond the horizon, equal
for equal distances, monotone); swap distance = minimum number of transpositions.

MC : spec/order1d/MC_Swap.tla - breadth of the transposition graph with an explicit swap
     counter: the least counter per (start, cur) is the true minimum; TLC checks it is never
     below n - cycles.  The dump gives the exact distance for every pair.
A  : every pair of the scope (all pairs n <= 5 quick / n <= 6 thorough, identity-rooted n = 7)
     through the real swap_distance.
B  : random object sequences with duplicates and ties, integer/float pseudo-metrics, powers,
     horizons -> Instance.from_sequence_and_distance, validated by Trace_Order; random
     permutation pairs up to length 30 validated through the cycle formula (which MC ties to
     the graph distance).
"""
from __future__ import annotations

import random

import numpy as np

from .. import core, tlc
from ..core import Report, small


def as_sequence(data: list, kind: str):
    """The same objects as another kind of sequence (the constructor accepts any iterable)."""
    import collections
    if kind == "tuple":
        return tuple(data)
    if kind == "deque":
        return collections.deque(data)
    if kind == "range" and data == list(range(len(data))):
        return range(len(data))
    if kind == "ndarray":
        return np.array(data, dtype=np.int64)
    return list(data)


def inst_case(cid: str, objs: list, dist, power, hz: int, scale: int = 1, seq: str = "list") -> dict:
    from moptipyapps.order1d.instance import Instance
    n0 = len(objs)
    # objects carry their original position as tag, so that duplicates stay distinguishable
    data = as_sequence(list(range(n0)), seq)
    inst = Instance.from_sequence_and_distance(
        data, lambda a, b: dist(objs[a], objs[b]), power, hz, ("pos",), lambda a: f"o{a + 1}")
    dm = [[small(int(round(dist(objs[a], objs[b]) * scale))) for b in range(n0)] for a in range(n0)]
    tags = [{"obj": small(int(t[0][0][1:])), "idx": small(int(t[1]))} for t in inst.tags]
    return {"id": cid, "kind": "inst", "dm": dm, "hz": small(hz), "n": small(inst.n),
            "horizon": small(inst.horizon), "tags": tags,
            "dist": [[small(int(v)) for v in r] for r in inst.distances.tolist()],
            "flows": [[small(int(v)) for v in r] for r in inst.flows.tolist()],
            "power": power, "objects": [str(o) for o in objs], "sequence_type": seq}


def big_case(cid: str, n: int, hz: int, rng: random.Random) -> dict:
    """n pairwise distinct objects: only what TLC can still afford is judged (see Trace_Order!Big)."""
    from moptipyapps.order1d.instance import Instance
    objs = list(range(n))
    rng.shuffle(objs)
    inst = Instance.from_sequence_and_distance(as_sequence(list(range(n)), rng.choice(["list", "tuple", "range"])),
                                               lambda a, b: abs(objs[a] - objs[b]), 1, hz, ("pos",),
                                               lambda a: f"o{a + 1}")
    return {"id": cid, "kind": "big", "nexp": n, "n": small(inst.n), "hz": small(hz), "horizon": small(inst.horizon),
            "dist": [[small(int(v)) for v in r] for r in inst.distances.tolist()],
            "flows": [[small(int(v)) for v in r] for r in inst.flows.tolist()]}


def run(prop: str, tier: str, seed: int) -> int:
    rep = Report(prop, tier, seed)
    rng = random.Random(seed * 179424673 + 20)
    from moptipyapps.order1d.distances import swap_distance
    scopes = {"quick": [(4, True), (5, True), (7, False)], "thorough": [(5, True), (6, True), (7, False)]}[tier]
    cases = []
    n_pairs = 0
    for n, alls in scopes:
        cfg = (f"SPECIFICATION Spec\nCONSTANTS N = {n}\n AllStarts = {'TRUE' if alls else 'FALSE'}\n"
               "INVARIANT NeverFewer\nINVARIANT Symmetric\n")
        dump = tlc.work_dir("gen") / "swap.dump"
        try:
            res = tlc.run("order1d/MC_Swap", cfg_text=cfg, workers=16, timeout=1500, dump=str(dump), heap="12g")
            rep.add_mc(f"MC_Swap n={n} {'all starts' if alls else 'from the identity'}", res)
            best = {}
            for st in tlc.read_dump(dump):
                key = (tuple(st["start"]), tuple(st["cur"]))
                if key not in best or st["d"] < best[key]:
                    best[key] = st["d"]
        finally:
            import shutil
            shutil.rmtree(dump.parent, ignore_errors=True)
        import math
        expect = math.factorial(n) * (math.factorial(n) if alls else 1)
        if len(best) != expect:
            raise core.MachineryError(f"transposition graph n={n}: {len(best)} pairs reached, expected {expect}")
        bad = []
        for (p1, p2), d in best.items():
            n_pairs += 1
            sd = int(swap_distance(np.array(p1), np.array(p2)))
            sd2 = int(swap_distance(np.array(p2), np.array(p1))) if not alls else sd
            if sd != d or sd2 != d:
                bad.append({"p1": list(p1), "p2": list(p2), "sd": small(sd if sd != d else sd2), "graph": d})
        if bad:
            rep.notes.append(f"n={n}: {len(bad)} pairs differ from the graph distance")
            for k in range(0, min(len(bad), 400), 50):
                cases.append({"id": f"graph-{n}-{k}", "kind": "swap", "pairs": bad[k:k + 50]})
        if len(rep.samples) < 1:
            (p1, p2), d = next(iter((k, v) for k, v in best.items() if v >= 2))
            rep.samples.append({"family": "transposition-graph", "p1": list(p1), "p2": list(p2), "graph_distance": d,
                                "real": int(swap_distance(np.array(p1), np.array(p2)))})
    rep.family("transposition-graph-pairs", n_pairs, n_pairs)
    rep.nontrivial += n_pairs
    rep.traces += n_pairs
    rep.exhaustive = True

    # ---- (B)
    n_b = {"quick": 500, "thorough": 5000}[tier]
    for k in range(n_b):
        m = rng.randint(2, 14 if rng.random() < 0.8 else 30)
        style = rng.random()
        if style < 0.45:       # integers with many duplicates, |a-b|
            objs = [rng.randint(0, max(2, m // 2)) for _ in range(m)]
            dist, scale = (lambda a, b: abs(a - b)), 1
        elif style < 0.7:      # quarter-valued floats
            objs = [rng.randint(0, 3 * m) / 4 for _ in range(m)]
            dist, scale = (lambda a, b: abs(a - b)), 4
        elif style < 0.85:     # coarse pseudo-metric with many ties: distance of bucket ids
            objs = [rng.randint(0, 40) for _ in range(m)]
            dist, scale = (lambda a, b: float(abs(a // 5 - b // 5))), 1
        else:                  # 2-D points, squared Euclidean (ties frequent on a small grid)
            objs = [(rng.randint(0, 3), rng.randint(0, 3)) for _ in range(m)]
            dist, scale = (lambda a, b: (a[0] - b[0]) ** 2 + (a[1] - b[1]) ** 2), 1
        if k % 40 == 11:      # every object at distance 0 from every other: one representative, a 1 x 1 instance
            objs = [objs[0]] * rng.randint(1, 4)
        power = rng.choice([1, 2, 3, 1.5, 2.5])
        hz = rng.choice([1, 2, 3, 5, 100])
        try:
            cases.append(inst_case(f"inst-{k}", objs, dist, power, hz, scale,
                                   seq=rng.choice(["list", "list", "tuple", "deque", "range", "ndarray"])))
            rep.family("ordering-instances", 1, 1)
            rep.nontrivial += 1
        except ValueError as ex:
            # every collection built here is valid (also the ones that merge into a single representative)
            rep.violations.append(core.Verdict(f"inst-{k}", "constructor-rejects-valid-collection",
                                               {"objects": [str(o) for o in objs], "power": power, "horizon": hz,
                                                "error": str(ex)[:200]}))
    for k in range({"quick": 60, "thorough": 400}[tier]):
        pairs = []
        for _ in range(20):
            n = rng.randint(2, 30)
            p1 = list(range(n))
            rng.shuffle(p1)
            p2 = p1[:]
            u = rng.random()
            if u < 0.3:
                rng.shuffle(p2)
            elif u < 0.6:       # a few transpositions / a rotation (long cycles)
                for _ in range(rng.randint(0, 4)):
                    a, b = rng.randrange(n), rng.randrange(n)
                    p2[a], p2[b] = p2[b], p2[a]
            else:
                r = rng.randrange(n)
                p2 = p2[r:] + p2[:r]
            pairs.append({"p1": p1, "p2": p2, "sd": small(int(swap_distance(np.array(p1), np.array(p2))))})
        cases.append({"id": f"swap-{k}", "kind": "swap", "pairs": pairs})
        rep.family("random-permutation-pairs", len(pairs), len(pairs))
        rep.nontrivial += len(pairs)
    # many objects: index storage beyond the 8-bit ranges
    for n in ([129, 257] if tier == "quick" else [127, 128, 129, 200, 255, 256, 257, 300]):
        cases.append(big_case(f"big-{n}", n, rng.choice([1, 2, 5]), rng))
        rep.family("many-distinct-objects(127..300)", 1, 1)
        rep.nontrivial += 1
    vs = core.validate("order1d/Trace_Order", cases, shards=14)
    core.classify(rep, vs, {c["id"]: c for c in cases}, family="recorded")
    rep.traces += sum(len(c.get("pairs", [1])) for c in cases)
    rep.evaluations = rep.traces
    rep.samples.append(next(c for c in cases if c["kind"] == "inst" and c["n"] < len(c["dm"])))
    rep.rule = ("(a) all pairs of permutations of the transposition graph scopes " + str(scopes) + " (n, all starts?); "
                "(b) seeded object sequences with duplicates/ties (integers, quarter-valued floats, bucket metric, "
                "grid points), powers 1..3 incl. fractional, horizons 1..100; random permutation pairs up to length 30. "
                "non-trivial = every pair / instance.")
    rep.assumptions = ["distance functions handed to the package are pseudo-metrics (d = 0 is transitive)"]
    return core.finish(rep)


def replay(prop: str, case: dict) -> dict:
    """Re-validate the recorded case against the specification (the record holds the input and what the real code
    returned for it; re-executing the code on exactly this input is what re-running the check with the same seed does)."""
    if "kind" not in case:      # a constructor rejection: the recorded objects are handed to the constructor again
        from moptipyapps.order1d.instance import Instance
        objs = case["objects"]
        try:       # (the original distance function is not recorded: equal strings <=> distance 0 suffices here)
            Instance.from_sequence_and_distance(list(range(len(objs))), lambda a, b: 0 if objs[a] == objs[b] else 1,
                                                case["power"], case["horizon"], ("pos",), lambda a: f"o{a + 1}")
            return {"clause": "ok", "case": case, "mode": "re-executed (0/1 distances from the recorded objects)"}
        except ValueError as ex:
            return {"clause": "constructor-rejects-valid-collection", "case": {**case, "error": str(ex)[:200]},
                    "mode": "re-executed (0/1 distances from the recorded objects)"}
    rec = dict(case)
    rec["id"] = "replay"
    vs = core.validate("order1d/Trace_Order", [rec])
    return {"clause": vs["replay"], "case": rec, "mode": "revalidated-recorded-case"}
