"""C13: the compiled kernels never index outside their arrays.

MC : spec/ttp/PairIndex.tla (pair-table index arithmetic of the error counter, incl. self-play),
     spec/binpack/IBL.tla StoreOK and spec/tsp/RevMove.tla TableIdx (every stored value / table
     index the design produces is inside what the code allocates).
A/B: the kernels themselves are executed in this process with numba's bounds checking enabled
     (NUMBA_BOUNDSCHECK=1, private cache) on the extreme inputs of the statement and on
     random ones; an IndexError is a violation.  Values computed on the way are compared with
     the specifications as in the other checks only where a silent negative-index wrap would
     otherwise go unnoticed (TTP error count on self-play plans).
"""
from __future__ import annotations

import itertools
import os
import random

import numpy as np

from .. import binpack as bp
from .. import core, tlc
from .. import tsp as ts
from .. import ttp as tp
from ..core import Report, small


def guarded(rep: Report, kernel: str, cid: str, case: dict, fn) -> bool:
    """Run fn(); an IndexError (bounds check) is a violation of C13 for `kernel`."""
    try:
        fn()
        return True
    except IndexError as ex:
        rep.violations.append(core.Verdict(cid, f"index-error:{kernel}", {**case, "error": str(ex)[:120]}))
        return False


def run(prop: str, tier: str, seed: int) -> int:
    if os.environ.get("NUMBA_BOUNDSCHECK") != "1":
        raise core.MachineryError("C13 must run with NUMBA_BOUNDSCHECK=1")
    rep = Report(prop, tier, seed)
    rng = random.Random(seed * 2038074743 + 13)
    # bounds checking really is active? (a deliberate out-of-range read in a probe kernel)
    import numba

    @numba.njit(boundscheck=False)
    def probe(a, i):
        return a[i]
    try:
        probe(np.zeros(3, dtype=np.int64), 7)
        raise core.MachineryError("numba bounds checking is not active")
    except IndexError:
        pass

    for skip in ("TRUE",):
        res = tlc.run("ttp/PairIndex", cfg_text="SPECIFICATION Spec\nCONSTANTS MaxN = 10\n SkipSelf = TRUE\n"
                      "INVARIANT InTable\nINVARIANT Injective\nINVARIANT NoAlias\n", workers=8, timeout=300)
        rep.add_mc("PairIndex MaxN=10 (pair-table indices incl. self-play)", res)
    res = tlc.run("binpack/IBL", cfg_text="SPECIFICATION Spec\nCONSTANTS MaxSide = 3\n MaxTypes = 2\n MaxRep = 2\n"
                  " MaxN = 3\nINVARIANT StoreOK\nINVARIANT BinsLeItems\n", workers=16, timeout=600)
    rep.add_mc("IBL step machine: StoreOK / BinsLeItems", res)
    res = tlc.run("binpack/IBLImpl", cfg_text="SPECIFICATION Spec\nCONSTANTS MaxSide = 2\n MaxTypes = 2\n MaxRep = 2\n"
                  " MaxN = 3\n Slim = FALSE\nINVARIANT NeverReadsOldContents\nINVARIANT WindowsCover\nINVARIANT IndicesInRange\n",
                  workers=16, timeout=900)
    rep.add_mc("IBLImpl: row/window indices of the array-shaped decoders stay inside what was written", res)
    res = tlc.run("tsp/RevMove", cfg_text="SPECIFICATION Spec\nCONSTANTS N = 4\n MaxDist = 2\n Depth = 2\n"
                  " Algo = \"fea\"\nINVARIANT TableIdx\nINVARIANT WithinBounds\n", workers=16, timeout=600)
    rep.add_mc("RevMove FEA: frequency-table index in 0..upper bound", res)

    n_runs = 0
    # ---- bin packing: decoders and objectives
    from .c02 import Objectives, random_layout
    n_bp = {"quick": 250, "thorough": 2500}[tier]
    for k in range(n_bp):
        u = rng.random()
        try:
            if u < 0.25:
                W, H, items = bp.fam_degenerate(rng)
            elif u < 0.45:
                W, H, items = bp.fam_storage_edge(rng)
            elif u < 0.55:      # one item, one bin
                W, H = rng.randint(1, 9), rng.randint(1, 9)
                items = [[rng.randint(1, W), rng.randint(1, H), 1]]
            elif u < 0.8:
                W, H, items = bp.fam_dense(rng)
            else:
                W, H, items = bp.fam_random(rng, 40, 6, 4, 30)
            if not items:
                continue
            inst = bp.make_instance(W, H, items)
        except ValueError:
            continue
        case = {"W": W, "H": H, "items": items}
        dec = bp.Decoders(inst)
        packs = []
        for e in (1, 2):
            for _ in range(2):
                x = bp.random_perm(inst, rng, rng.choice(["random", "pos", "neg"]))
                if rng.random() < 0.5:
                    dec.dirty(rng, e)
                ok = guarded(rep, f"ibl_encoding_{e}._decode", f"bp-{k}-e{e}", {**case, "x": x},
                             lambda e=e, x=x: packs.append(dec.decode(e, x)))
                n_runs += 1
        # every item in its own bin (bin id = n_items) and arbitrary feasible layouts
        packs2 = [(p["rows"], p["nb"]) for p in packs]
        packs2.append(random_layout(inst, rng, 1.0))
        packs2.append(random_layout(inst, rng, 0.3))
        objs = Objectives(inst)
        for rows, nb in packs2:
            for o in objs.objs:
                y = bp._mods()["Packing"](inst)
                y[:, :] = np.array(rows, dtype=np.int64).reshape(y.shape)
                y.n_bins = nb
                guarded(rep, f"objectives.{o}", f"bp-{k}-{o}", {**case, "rows": rows},
                        lambda o=o, y=y: o.evaluate(y))
                n_runs += 1
    rep.family("binpacking decoders+objectives", n_runs, n_runs)

    # ---- TTP: error counter, plan length, game decoding
    n0 = n_runs
    n_t = {"quick": 300, "thorough": 3000}[tier]
    from .c07 import ErrObj
    from .c08 import LenObj
    from .c15 import decode as gdecode
    selfplay_cases = []
    for k in range(n_t):
        n = rng.choice([2, 4, 4, 6, 8, 12])
        rounds = rng.choice([1, 2, 2, 3])
        inst = tp.make_instance(n, rounds, {})
        eo, lo = ErrObj(inst), LenObj(inst)
        days = (n - 1) * rounds
        kind = rng.choice(["arbitrary", "self", "self-last", "all-self", "consistent", "byes", "max-values"])
        if kind == "self-last":
            rows = tp.random_plan(rng, n, days, "consistent")
            rows[rng.randrange(days)][n - 1] = n * rng.choice([-1, 1])
        elif kind == "all-self":
            rows = [[(t + 1) * rng.choice([-1, 1]) for t in range(n)] for _ in range(days)]
        elif kind == "max-values":
            rows = [[rng.choice([-n, n, n - 1, -(n - 1), 1, -1]) for _ in range(n)] for _ in range(days)]
        else:
            rows = tp.random_plan(rng, n, days, kind)
        case = {"n": n, "rounds": rounds, "plan": rows, "kind": kind}
        got = {}
        if guarded(rep, "ttp.errors.count_errors", f"ttp-{k}-errors", case,
                   lambda: got.__setitem__("e", eo.eval(rows))):
            selfplay_cases.append({"id": f"ttp-{k}", "cfg": tp.cfg_of(inst), "ub": small(eo.ub),
                                   "plans": [{"plan": rows, "errors": small(got["e"])}]})
        guarded(rep, "ttp.plan_length.game_plan_length", f"ttp-{k}-length", case, lambda: lo.eval(rows))
        bpv = [small(v) for v in tp.mods()["ss"](n, rounds).blueprint] if (n, rounds) != (2, 1) else [0, 1]
        x = bpv[:]
        rng.shuffle(x)
        dd = rng.randint(1, days)
        guarded(rep, "ttp.game_encoding.map_games", f"ttp-{k}-decode", {"n": n, "days": dd, "x": x},
                lambda: gdecode(x, dd, n, rng))
        n_runs += 3
    rep.family("ttp errors+length+decoding", n_runs - n0, n_runs - n0)
    # the counts on self-play plans must still satisfy C07's clauses (a negative index would wrap silently)
    vs = core.validate("ttp/Trace_TTP", selfplay_cases, cfg_text='SPECIFICATION Spec\nCONSTANT Prop = "C07"\n',
                       shards=14)
    known7 = {f["clause"] for f in core.load_known("C07")}
    for cid, v in vs.items():
        for cl in core.clauses_of(v):
            if cl in known7:
                continue
            rep.violations.append(core.Verdict(cid, "value-wrong-under-boundscheck:" + cl,
                                               next(c for c in selfplay_cases if c["id"] == cid)))
    rep.traces += len(selfplay_cases)

    # ---- TSP: tour length and the two move kernels with every index pair incl. the last index
    n0 = n_runs
    m = ts.mods()
    for k in range({"quick": 60, "thorough": 500}[tier]):
        n = rng.randint(2, 12)
        M = ts.random_matrix(rng, n, rng.choice([3, 100]), True)
        inst = ts.make_instance(M)
        x = list(range(n))
        rng.shuffle(x)
        case = {"M": M, "x": x}
        guarded(rep, "tsp.tour_length", f"tsp-{k}-len", case, lambda: m["tour_length"](inst, np.array(x)))
        n_runs += 1
        ub = int(inst.tour_length_upper_bound)
        for i, j in itertools.combinations(range(n), 2):
            # the tour is an exact-size array: reading x[n] is out of range
            xa = np.array(x, dtype=np.int64)
            y = int(m["tour_length"](inst, xa))
            guarded(rep, "tsp.ea1p1_revn.rev_if_not_worse", f"tsp-{k}-ea-{i}-{j}", {**case, "i": i, "j": j},
                    lambda: m["rev_ea"](i, j, n, inst, xa.copy(), y))
            h = np.zeros(ub + 1, dtype=np.int64)
            guarded(rep, "tsp.fea1p1_revn.rev_if_h_not_worse", f"tsp-{k}-fea-{i}-{j}", {**case, "i": i, "j": j},
                    lambda: m["rev_fea"](i, j, n, inst, h, xa.copy(), y))
            n_runs += 2
    rep.family("tsp tour length + move kernels (all i<j incl. last index)", n_runs - n0, n_runs - n0)

    # ---- the solve loops of the TSP EA / FEA themselves: their own scratch arrays (the FEA's frequency table is
    # indexed with tour lengths up to the upper bound, which constant and clustered matrices attain)
    n0 = n_runs
    from .c06 import solve_case
    for k in range({"quick": 60, "thorough": 400}[tier]):
        n = rng.randint(4, 12)
        u = rng.random()
        if u < 0.4:
            c = rng.randint(1, 9)
            M = [[0 if i == j else c for j in range(n)] for i in range(n)]
        elif u < 0.6:
            n = rng.choice([4, 6, 8])
            far, near = rng.randint(5, 9), rng.randint(1, 2)
            M = [[0 if i == j else (near if (i < n // 2) == (j < n // 2) else far) for j in range(n)] for i in range(n)]
        else:
            M = ts.random_matrix(rng, n, rng.choice([1, 2, 5, 1000]), True, zeros=0)
        inst = ts.make_instance(M)
        for algo in ("ea", "fea"):
            sd, budget = rng.randrange(1 << 30), rng.choice([20, 200, 1000])
            rec = solve_case(f"tsp-solve-{k}-{algo}", M, inst, algo, sd, budget)
            if rec.pop("_index_error", False):
                rep.violations.append(core.Verdict(rec["id"], f"index-error:tsp.{algo}1p1_revn.solve",
                                                   {"M": M, "algo": algo, "seed": sd, "budget": budget}))
            n_runs += 1
    rep.family("tsp ea/fea solve loops (constant, clustered, random matrices)", n_runs - n0, n_runs - n0)

    # ---- QAP objective
    n0 = n_runs
    from .c09 import mods as qmods
    for k in range({"quick": 60, "thorough": 400}[tier]):
        n = rng.randint(1, 9)
        F = [[rng.randint(0, 50) for _ in range(n)] for _ in range(n)]
        D = [[rng.randint(0, 50) for _ in range(n)] for _ in range(n)]
        inst = qmods()["Instance"](np.array(D), np.array(F))
        obj = qmods()["Obj"](inst)
        p = list(range(n))
        rng.shuffle(p)
        guarded(rep, "qap.objective._evaluate", f"qap-{k}", {"F": F, "D": D, "p": p},
                lambda: obj.evaluate(np.array(p)))
        n_runs += 1
    rep.family("qap objective", n_runs - n0, n_runs - n0)

    # ---- controllers and system equations: exact-size state / parameter / output vectors
    n0 = n_runs
    from moptipyapps.dynamic_control.controllers.ann import anns
    from moptipyapps.dynamic_control.controllers.cubic import cubic
    from moptipyapps.dynamic_control.controllers.linear import linear
    from moptipyapps.dynamic_control.controllers.min_ann import min_anns
    from moptipyapps.dynamic_control.controllers.partially_linear import partially_linear
    from moptipyapps.dynamic_control.controllers.peaks import peaks
    from moptipyapps.dynamic_control.controllers.predefined import predefined
    from moptipyapps.dynamic_control.controllers.quadratic import quadratic
    from moptipyapps.dynamic_control.systems.lorenz import LORENZ_4
    from moptipyapps.dynamic_control.systems.stuart_landau import STUART_LANDAU_4
    from moptipyapps.dynamic_control.systems.three_coupled_oscillators import THREE_COUPLED_OSCILLATORS
    n_ev = {"quick": 40, "thorough": 300}[tier]
    for sysm in (STUART_LANDAU_4, LORENZ_4, THREE_COUPLED_OSCILLATORS):
        ctls = []
        for mk in (linear, quadratic, cubic, partially_linear, peaks, predefined, min_anns, anns):
            try:
                got = mk(sysm)
            except ValueError:
                continue          # this family does not exist for the state dimension
            ctls.extend(got if isinstance(got, (tuple, list)) else (list(got) if not hasattr(got, "controller") else [got]))
        d = sysm.state_dims
        for ctl in ctls:
            for e in range(n_ev):
                scale = rng.choice([0.0, 1.0, 1.0, 4.0])
                params = [rng.uniform(-scale, scale) if scale else 0.0 for _ in range(ctl.param_dims)]
                if e % 3 == 0 and ctl.param_dims >= 2 * d:
                    # the state sits on a d-tuple of consecutive parameters (an "anchor" of the partially linear
                    # controllers: makes each later branch the closest one in turn)
                    o = rng.randrange(0, ctl.param_dims - d + 1)
                    state = list(params[o:o + d])
                else:
                    state = [rng.uniform(-3, 3) for _ in range(d)]
                sa, pa, out = np.array(state), np.array(params), np.empty(ctl.control_dims)
                guarded(rep, f"controller:{ctl.name}({d}d)", f"ctrl-{sysm.name}-{ctl.name}-{e}",
                        {"system": sysm.name, "controller": ctl.name, "state": state, "params": params},
                        lambda: ctl.controller(sa, rng.uniform(0, 5), pa, out))
                n_runs += 1
        for e in range(n_ev):
            sa = np.array([rng.uniform(-3, 3) for _ in range(d)])
            ca, out = np.array([rng.uniform(-2, 2) for _ in range(sysm.control_dims)]), np.empty(d)
            guarded(rep, f"equations:{sysm.name}", f"eq-{sysm.name}-{e}", {"system": sysm.name, "state": sa.tolist(),
                                                                            "control": ca.tolist()},
                    lambda: sysm.equations(sa, 0.5, ca, out))
            n_runs += 1
    # generated networks requested in orders in which a sloppy cache key would hand out the network of ANOTHER
    # architecture (then the kernel writes / reads outside vectors sized for the requested one)
    from moptipyapps.dynamic_control.controllers.ann import make_ann
    for a in [a for a in vars(make_ann) if a.startswith("__cache_")]:
        delattr(make_ann, a)
    reqs = [(2, 2, [3]), (2, 1, [3]), (3, 1, [2]), (3, 2, [2]), (2, 1, [1, 12]), (2, 1, [11, 2]), (2, 1, [12, 1]),
            (2, 3, [1]), (2, 1, [2, 3]), (2, 1, [3, 2]), (3, 2, [1]), (2, 1, [])]
    rng.shuffle(reqs)
    for pos, (sd, cd, layers) in enumerate(reqs + reqs[::-1]):
        if pos == len(reqs):      # second pass in the opposite order, from an empty cache again
            for a in [a for a in vars(make_ann) if a.startswith("__cache_")]:
                delattr(make_ann, a)
        ctl = make_ann(sd, cd, list(layers))
        # the vectors are sized from the REQUEST (what a caller who asked for this architecture allocates)
        npar = sum(w * (1 + (sd if i == 0 else layers[i - 1])) for i, w in enumerate(layers)) \
            + cd * (2 + (layers[-1] if layers else sd))
        sa, pa, out = np.array([rng.uniform(-2, 2) for _ in range(sd)]), \
            np.array([rng.uniform(-1, 1) for _ in range(npar)]), np.empty(cd)
        guarded(rep, f"controller:make_ann({sd},{cd},{layers})", f"ann-request-{sd}-{cd}-{'_'.join(map(str, layers))}-{n_runs}",
                {"system": "generated", "request": [sd, cd, list(layers)]},
                lambda: ctl.controller(sa, 0.0, pa, out))
        n_runs += 1
    rep.family("controllers + system equations (exact-size vectors)", n_runs - n0, n_runs - n0)

    # ---- simulation post-processing kernels (figure of merit, time and differential extraction)
    n0 = n_runs
    from moptipyapps.dynamic_control import ode as odem
    for k in range({"quick": 60, "thorough": 500}[tier]):
        sd, cd = rng.randint(1, 4), rng.randint(1, 3)
        rows = rng.choice([1, 1, 2, 3, rng.randint(4, 30)])
        t = sorted(rng.uniform(0, 10) for _ in range(rows))
        t[0] = 0.0
        arr = np.array([[rng.uniform(-2, 2) for _ in range(sd + cd)] + [t[r]] for r in range(rows)])
        case = {"ode": arr.tolist(), "state_dim": sd, "control_dim": cd}
        guarded(rep, "ode.j_from_ode", f"ode-j-{k}", case, lambda: odem.j_from_ode(arr, sd, rng.choice([-1, sd, max(1, sd - 1)]), 0.1))
        guarded(rep, "ode.t_from_ode", f"ode-t-{k}", case, lambda: odem.t_from_ode(arr))
        guarded(rep, "ode.diff_from_ode", f"ode-d-{k}", case, lambda: odem.diff_from_ode(arr, sd))
        n_runs += 3
    for k in range({"quick": 12, "thorough": 80}[tier]):
        sysm = rng.choice([STUART_LANDAU_4, LORENZ_4])
        ctl = rng.choice([linear, quadratic])(sysm)
        pa = np.array([rng.uniform(-1, 1) for _ in range(ctl.param_dims)])
        st = np.array(sysm.training_starting_states[rng.randrange(len(sysm.training_starting_states))], dtype=float)
        steps = rng.choice([1, 2, 5, 30])
        guarded(rep, "ode.run_ode", f"ode-run-{k}", {"system": sysm.name, "controller": ctl.name, "params": pa.tolist(),
                                                    "start": st.tolist(), "steps": steps},
                lambda: odem.run_ode(st, sysm.equations, ctl.controller, pa, 1, steps, rng.choice([0.5, 3.0])))
        n_runs += 1
    rep.family("ode kernels (run, figure of merit, time, differentials)", n_runs - n0, n_runs - n0)

    # ---- order1d swap distance
    n0 = n_runs
    from moptipyapps.order1d.distances import swap_distance
    for k in range({"quick": 200, "thorough": 2000}[tier]):
        n = rng.choice([1, 1, 2, 3, rng.randint(4, 40)])
        a, b = list(range(n)), list(range(n))
        rng.shuffle(a)
        rng.shuffle(b)
        guarded(rep, "order1d.swap_distance", f"swap-{k}", {"p1": a, "p2": b},
                lambda: swap_distance(np.array(a), np.array(b)))
        n_runs += 1
    rep.family("order1d swap distance", n_runs - n0, n_runs - n0)

    rep.traces += n_runs
    rep.evaluations = n_runs
    rep.nontrivial = n_runs
    rep.samples.append({"kernel": "ttp.errors.count_errors", "example_input": selfplay_cases[0] if selfplay_cases else None})
    rep.rule = ("kernel executions under numba bounds checking: decoders (degenerate, one item, storage edge, dense), "
                "7 objectives incl. every-item-in-its-own-bin packings, TTP error counter / plan length on arbitrary, "
                "self-play (last team), all-self and extreme-value plans, game decoding with tight day budgets, TSP tour "
                "length and both move kernels for every i<j up to the last index, QAP objective, every bundled controller family "
                "(polynomial, partially linear with the state on each anchor, peaks, predefined, ANNs) and the system "
                "equations on exact-size vectors, the simulation kernels (run_ode, j/t/diff_from_ode incl. one-row "
                "results and several control dimensions), the ordering swap distance. Each execution is a "
                "distinct randomly drawn input; non-trivial = all.")
    rep.assumptions = ["NUMBA_BOUNDSCHECK=1 overrides boundscheck=False (probed at start)",
                       "negative indices wrap silently even with bounds checking; only caught through values"]
    return core.finish(rep)


def replay(prop: str, case: dict) -> dict:
    """Re-run the kernel that raised on the recorded input (bounds checking is on for this property)."""
    import numpy as _np
    try:
        if "plan" in case and "n" in case:
            inst = tp.make_instance(case["n"], case["rounds"], {})
            from .c07 import ErrObj
            from .c08 import LenObj
            ErrObj(inst).eval(case["plan"])
            LenObj(inst).eval(case["plan"])
        elif "M" in case and "algo" in case:
            from .c06 import solve_case
            rec = solve_case("replay", case["M"], ts.make_instance(case["M"]), case["algo"], case["seed"], case["budget"])
            if rec.get("_index_error"):
                raise IndexError("index error in solve")
        elif "M" in case and "x" in case:
            m = ts.mods()
            inst = ts.make_instance(case["M"])
            n = len(case["M"])
            xa = _np.array(case["x"], dtype=_np.int64)
            y = int(m["tour_length"](inst, xa))
            if "i" in case:
                m["rev_ea"](case["i"], case["j"], n, inst, xa.copy(), y)
                h = _np.zeros(int(inst.tour_length_upper_bound) + 1, dtype=_np.int64)
                m["rev_fea"](case["i"], case["j"], n, inst, h, xa.copy(), y)
        elif "request" in case:
            # one request in a fresh process cannot collide with another architecture's cache entry: the recorded
            # failure depends on the order of requests, which only the full run exercises
            from moptipyapps.dynamic_control.controllers.ann import make_ann
            sd, cd, layers = case["request"]
            ctl = make_ann(sd, cd, list(layers))
            npar = sum(w * (1 + (sd if i == 0 else layers[i - 1])) for i, w in enumerate(layers)) \
                + cd * (2 + (layers[-1] if layers else sd))
            ctl.controller(_np.zeros(sd), 0.0, _np.zeros(npar), _np.empty(cd))
            return {"clause": "ok", "case": case,
                    "mode": "re-executed (a single request; the order of requests is only exercised by the full run)"}
        elif "system" in case:
            from moptipyapps.dynamic_control import ode as odem
            from moptipyapps.dynamic_control.controllers.ann import anns
            from moptipyapps.dynamic_control.controllers.cubic import cubic
            from moptipyapps.dynamic_control.controllers.linear import linear
            from moptipyapps.dynamic_control.controllers.min_ann import min_anns
            from moptipyapps.dynamic_control.controllers.partially_linear import partially_linear
            from moptipyapps.dynamic_control.controllers.peaks import peaks
            from moptipyapps.dynamic_control.controllers.predefined import predefined
            from moptipyapps.dynamic_control.controllers.quadratic import quadratic
            from moptipyapps.dynamic_control.systems.lorenz import LORENZ_4
            from moptipyapps.dynamic_control.systems.stuart_landau import STUART_LANDAU_4
            from moptipyapps.dynamic_control.systems.three_coupled_oscillators import THREE_COUPLED_OSCILLATORS
            sysm = {q.name: q for q in (STUART_LANDAU_4, LORENZ_4, THREE_COUPLED_OSCILLATORS)}[case["system"]]
            ctl = None
            for mk in (linear, quadratic, cubic, partially_linear, peaks, predefined, min_anns, anns):
                try:
                    got = mk(sysm)
                except ValueError:
                    continue
                for c in (got if isinstance(got, (tuple, list)) else (list(got) if not hasattr(got, "controller") else [got])):
                    if c.name == case.get("controller"):
                        ctl = c
            if "start" in case:
                odem.run_ode(_np.array(case["start"]), sysm.equations, ctl.controller, _np.array(case["params"]), 1,
                             case["steps"], 3.0)
            elif ctl is not None:
                ctl.controller(_np.array(case["state"]), 0.5, _np.array(case["params"]), _np.empty(ctl.control_dims))
            else:
                sysm.equations(_np.array(case["state"]), 0.5, _np.array(case["control"]), _np.empty(sysm.state_dims))
        elif "ode" in case:
            from moptipyapps.dynamic_control import ode as odem
            arr = _np.array(case["ode"])
            for u in (-1, case["state_dim"], max(1, case["state_dim"] - 1)):
                odem.j_from_ode(arr, case["state_dim"], u, 0.1)
            odem.t_from_ode(arr)
            odem.diff_from_ode(arr, case["state_dim"])
        elif "p1" in case:
            from moptipyapps.order1d.distances import swap_distance
            swap_distance(_np.array(case["p1"]), _np.array(case["p2"]))
        elif "W" in case:
            inst = bp.make_instance(case["W"], case["H"], case["items"])
            if "x" in case:
                dec = bp.Decoders(inst)
                dec.decode(1, case["x"])
                dec.decode(2, case["x"])
            if "rows" in case:
                from .c02 import Objectives
                Objectives(inst).evaluate(case["rows"], max(r[1] for r in case["rows"]))
        return {"clause": "ok", "case": case, "mode": "re-executed"}
    except IndexError as ex:
        return {"clause": ["index-error:" + str(ex)[:60]], "case": case, "mode": "re-executed"}
