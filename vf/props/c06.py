"""C06: the reversal-based (1+1) EA / FEA hand the process only valid permutations with
their exact tour lengths; the EA never gets longer; the FEA's frequency-table indices stay
in 0..upper bound.  (Runs with numba bounds checking switched on, so that a table that is
too short turns into an IndexError instead of silent corruption.)

MC : spec/tsp/RevMove.tla - all symmetric matrices (n=4 over 0..2, n=5 over 0..1), all start
     tours, all move sequences up to a depth; exact length, permutation, O(1) delta = true
     delta, EA monotone, table index in range.
A  : every (matrix, tour, i, j) of the MC scope is fed to the two compiled move kernels.
B  : the real solve() loops on random symmetric instances (incl. constant matrices, where
     every tour has the upper-bound length, and two-cluster matrices) and shipped ones, many
     seeds and budgets, against a stub process that records every registered pair.
"""
from __future__ import annotations

import itertools
import random

import numpy as np

from .. import core, tlc
from .. import tsp as ts
from ..core import Report, small


def _trace_cfg() -> str:
    return 'SPECIFICATION Spec\nCONSTANT Prop = "C06"\n'


def kernel_case(cid: str, M: list, inst, algo: str, x0: list, moves: list) -> dict:
    n = len(M)
    m = ts.mods()
    x = np.array(x0, dtype=np.int64)
    y = int(m["tour_length"](inst, x))
    ub = int(inst.tour_length_upper_bound)
    steps = [{"x": [int(v) + 1 for v in x], "y": small(y)}]
    hidx = []
    h = np.zeros(ub + 1 + 64, dtype=np.int64)     # longer than needed: writes beyond ub are observed
    for i, j in moves:
        if algo == "ea":
            y = int(m["rev_ea"](i, j, n, inst, x, y))
        else:
            before = h.copy()
            y = int(m["rev_fea"](i, j, n, inst, h, x, y))
            hidx.extend(int(k) for k in np.nonzero(h != before)[0])
        steps.append({"x": [int(v) + 1 for v in x], "y": small(y)})
    return {"id": cid, "n": n, "M": M, "algo": algo, "ub": small(ub), "steps": steps, "hidx": hidx,
            "x0": list(x0), "moves": [list(p) for p in moves]}


def _log_stub():
    """A StubProcess that is a moptipy Process and has a log: the FEA configured with do_log_h = True hands its
    frequency table to `add_log_section` at the end of the run."""
    from moptipy.api.process import Process

    class LogStub(ts.StubProcess, Process):
        def has_log(self) -> bool:
            return True

        def add_log_section(self, title, text) -> None:
            self.sections = getattr(self, "sections", []) + [(str(title), str(text))]
    return LogStub


def parse_h(text: str) -> list:
    """moptipy's h_to_str: y;count;y;count...; an omitted y is the previous one + 1.  Returns the logged y values."""
    parts = text.strip().split(";")
    ys, prev = [], None
    for k in range(0, len(parts) - 1, 2):
        y = int(parts[k]) if parts[k].strip() else prev + 1
        ys.append(y)
        prev = y
    return ys


def solve_case(cid: str, M: list, inst, algo: str, seed: int, budget: int, raw: bool = False,
               log_h: bool = False) -> dict:
    m = ts.mods()
    proc = (_log_stub() if log_h else ts.StubProcess)(inst, seed, budget, raw)
    alg = m["EA"](inst) if algo == "ea" else (m["FEA"](inst, True) if log_h else m["FEA"](inst))
    clause = None
    try:
        alg.solve(proc)
    except IndexError:
        clause = "index-error-in-solve"
    hidx = []
    if log_h and clause is None:
        secs = getattr(proc, "sections", [])
        if len(secs) != 1:
            raise core.MachineryError(f"expected one logged H section, got {len(secs)}")
        # the logged table: every entry it names is an entry the run addressed
        hidx = [small(v) for v in parse_h(secs[0][1])]
    rec = {"id": cid, "n": len(M), "M": M, "algo": algo, "ub": 0 if raw else small(int(inst.tour_length_upper_bound)),
           "steps": proc.trace, "hidx": hidx, "seed": seed, "budget": budget, "log_h": 1 if log_h else 0}
    if clause:
        rec["_index_error"] = True
    return rec


def run(prop: str, tier: str, seed: int) -> int:
    rep = Report(prop, tier, seed)
    rng = random.Random(seed * 472882027 + 6)
    scopes = {"quick": [(4, 2, 2)], "thorough": [(4, 2, 3), (5, 1, 2)]}[tier]
    cases = []
    for n, md, depth in scopes:
        for algo in ("ea", "fea"):
            cfg = (f"SPECIFICATION Spec\nCONSTANTS N = {n}\n MaxDist = {md}\n Depth = {depth}\n Algo = \"{algo}\"\n"
                   "INVARIANT ExactLength\nINVARIANT StaysPerm\nINVARIANT DeltaExact\nINVARIANT WithinBounds\n"
                   "INVARIANT TableIdx\nPROPERTY EAMonotone\n")
            res = tlc.run("tsp/RevMove", cfg_text=cfg, workers=16, timeout=900)
            rep.add_mc(f"RevMove n={n} distances 0..{md} depth {depth} {algo}", res)
        # (A) the same scope through the kernels: every matrix x start tour x every move pair (x follow-up move)
        vals = range(md + 1)
        pairs = [(i, j) for i in range(n - 1) for j in range(i + 1, n - 1) if not (i == 0 and j == n - 2)]
        idx = [(a, b) for a in range(n) for b in range(a)]
        n_k = 0
        for combo in itertools.product(vals, repeat=len(idx)):
            M = [[0] * n for _ in range(n)]
            for (a, b), v in zip(idx, combo):
                M[a][b] = M[b][a] = v
            if any(max(r) == 0 for r in M):
                continue
            inst = ts.make_instance(M)
            for x0 in itertools.permutations(range(n)):
                for algo in ("ea", "fea"):
                    moves = list(pairs) + [rng.choice(pairs) for _ in range(2)]
                    cases.append(kernel_case(f"k{n}-{len(cases)}", M, inst, algo, list(x0), moves))
                    n_k += len(moves)
        rep.family(f"kernel-replay n={n}", n_k, n_k)
        rep.nontrivial += n_k
    rep.exhaustive = True
    # ---- (B)
    n_b = {"quick": 160, "thorough": 1200}[tier]
    for k in range(n_b):
        u = rng.random()
        n = rng.randint(4, 16)
        if u < 0.2:      # constant matrix: every tour has the length of the upper bound
            c = rng.randint(1, 9)
            M = [[0 if i == j else c for j in range(n)] for i in range(n)]
            fam = "constant"
        elif u < 0.35:   # two far clusters
            n = rng.choice([4, 6, 8])
            far, near = rng.randint(5, 9), rng.randint(1, 2)
            M = [[0 if i == j else (near if (i < n // 2) == (j < n // 2) else far) for j in range(n)]
                 for i in range(n)]
            fam = "clusters"
        else:
            M = ts.random_matrix(rng, n, rng.choice([2, 5, 50, 1000]), True, zeros=rng.choice([0, 0.1]))
            fam = "random"
        inst = ts.make_instance(M)
        algo = rng.choice(["ea", "fea"])
        rec = solve_case(f"{fam}-{k}", M, inst, algo, rng.randrange(1 << 30), rng.choice([5, 50, 400, 2000]))
        cases.append(rec)
        if algo == "fea" and k % 3 == 0:
            # the same run with the frequency table logged at the end (do_log_h = True): same trace, table in range
            rec2 = solve_case(f"{fam}-{k}-logh", M, inst, algo, rec["seed"], rec["budget"], log_h=True)
            if not rec2.get("_index_error") and rec2["steps"] != rec["steps"]:
                rep.violations.append(core.Verdict(rec2["id"], "logging-the-frequency-table-changes-the-run", rec2))
            cases.append(rec2)
            rep.family("solve-with-logged-frequency-table", len(rec2["steps"]), len(rec2["steps"]))
        rep.family(f"solve-{fam}", len(rec["steps"]), len(rec["steps"]))
        rep.nontrivial += len(rec["steps"])
    # many cities: index and tour storage beyond the 8-bit ranges (127/128, 255/256), small distances so that
    # equal-length moves and frequency collisions stay frequent
    for n in ([128, 257] if tier == "quick" else [127, 128, 129, 255, 256, 257, 300]):
        M = ts.random_matrix(rng, n, rng.choice([2, 5]), True, zeros=0)
        inst = ts.make_instance(M)
        for algo in ("ea", "fea"):
            rec = solve_case(f"many-cities-{n}-{algo}", M, inst, algo, rng.randrange(1 << 30), 120)
            cases.append(rec)
            rep.family("solve-many-cities(127..300)", len(rec["steps"]), len(rec["steps"]))
            rep.nontrivial += len(rec["steps"])
    # distances far beyond 32 bits (the instance stores them as int64; upper bounds up to 10^15 are admitted):
    # the EA's O(1) length update must not lose bits
    from ..core import big
    for k in range({"quick": 12, "thorough": 80}[tier]):
        n = rng.randint(5, 10)
        hi = rng.choice([3 * 10 ** 9, 5 * 10 ** 9, 10 ** 11, 10 ** 13])
        M = [[0] * n for _ in range(n)]
        for i in range(n):
            for j in range(i):
                M[i][j] = M[j][i] = rng.choice([rng.randint(1, 9), rng.randint(hi // 2, hi), rng.randint(1, hi)])
        inst = ts.make_instance(M)
        rec = solve_case(f"huge-distances-{k}", M, inst, "ea", rng.randrange(1 << 30), rng.choice([30, 120, 400]), raw=True)
        if rec.pop("_index_error", False):
            rep.violations.append(core.Verdict(rec["id"], "index-error:frequency-table-or-tour", rec))
            continue
        steps = []
        for st in rec["steps"]:
            steps.append({"x": st["x"], "y": big(int(st["y"])) if int(st["y"]) >= 0 else [-1]})
        cases.append({"id": rec["id"], "big": 1, "n": n, "M": [[big(v) for v in r] for r in M], "algo": "ea",
                      "steps": steps, "hidx": [], "ub": 0})
        rep.family("solve-huge-distances(ea)", len(steps), len(steps))
        rep.nontrivial += len(steps)
    I = ts.mods()["Instance"]
    for nm in (["gr17", "gr21", "bays29"] if tier == "quick" else ["gr17", "gr21", "gr24", "fri26", "bays29", "att48",
                                                                   "berlin52", "eil51", "st70"]):
        inst = I.from_resource(nm)
        n = inst.n_cities
        M = [[small(int(inst[i, j])) for j in range(n)] for i in range(n)]
        for algo in ("ea", "fea"):
            rec = solve_case(f"shipped-{nm}-{algo}", M, inst, algo, rng.randrange(1 << 30), 600)
            rec["ub"] = small(int(inst.tour_length_upper_bound))
            cases.append(rec)
            rep.family("solve-shipped", len(rec["steps"]), len(rec["steps"]))
    # IndexErrors (numba bounds checking is on) are violations by themselves
    for c in cases:
        if c.pop("_index_error", False):
            rep.violations.append(core.Verdict(c["id"], "index-error:frequency-table-or-tour", c))
    vs = core.validate("tsp/Trace_TSP", cases, cfg_text=_trace_cfg(), shards=14)
    core.classify(rep, vs, {c["id"]: c for c in cases}, family="recorded")
    rep.traces += sum(len(c["steps"]) for c in cases)
    rep.evaluations = rep.traces
    s = next(c for c in cases if c["id"].startswith("random"))
    rep.samples.append({"family": "solve-random", "n": s["n"], "M": s["M"], "algo": s["algo"],
                        "first_registered_pairs": s["steps"][:4]})
    rep.samples.append({"family": "kernel", **{k: cases[0][k] for k in ("n", "M", "algo", "steps", "hidx")}})
    rep.rule = ("(a) all symmetric matrices/start tours/moves of the scope " + str(scopes) + " through both kernels; "
                "(b) the real solve() loops against a recording stub process on random, constant, two-cluster and "
                "shipped symmetric instances with random seeds and budgets 5..2000. non-trivial = every registered "
                "(x, y) pair / kernel call.")
    rep.assumptions = ["numba bounds checking is enabled for this check (NUMBA_BOUNDSCHECK=1, private cache)"]
    return core.finish(rep)


def replay(prop: str, case: dict) -> dict:
    inst = ts.make_instance(case["M"])
    if "moves" in case:
        rec = kernel_case("replay", case["M"], inst, case["algo"], case["x0"], [tuple(p) for p in case["moves"]])
    else:
        rec = solve_case("replay", case["M"], inst, case["algo"], case["seed"], case["budget"],
                         log_h=bool(case.get("log_h")))
    if rec.pop("_index_error", False):
        return {"clause": "index-error:frequency-table-or-tour", "case": rec}
    vs = core.validate("tsp/Trace_TSP", [rec], cfg_text=_trace_cfg())
    return {"clause": vs["replay"], "case": rec}
