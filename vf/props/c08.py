"""C08: plan length = travel model + bye penalties, within declared bounds; a bye replacing a
game strictly increases it; the least length over all error-free 4-team plans is the
published optimum.

MC : spec/ttp/MC_Len.tla - all day-consistent plans with byes for small matrices: bounds and
     the bye clause hold for the MODEL itself; spec/ttp/MC_RR.tla provides the complete
     feasible set of the four-team double round robin (1 920 plans).
A  : the feasible set from TLC is evaluated by the real GamePlanLength on all seven shipped
     4-team instances; TLC recomputes every length and checks min = published optimum.
B  : random matrices (symmetric, asymmetric, zero rows), random plans with byes, n <= 12;
     every (day, team) bye replacement evaluated by the real code and checked by TLC.
"""
from __future__ import annotations

import random

import numpy as np

from .. import core, tlc
from .. import ttp as tp
from ..core import Report, small
from .c07 import relabel_closure, rr4_feasible_set


def _trace_cfg() -> str:
    return 'SPECIFICATION Spec\nCONSTANT Prop = "C08"\n'


class LenObj:
    def __init__(self, inst) -> None:
        self.inst = inst
        self.obj = tp.mods()["GamePlanLength"](inst)
        self.y = tp.mods()["GamePlan"](inst)

    def eval(self, rows) -> int:
        self.y[:, :] = np.array(rows, dtype=np.int64)
        return int(self.obj.evaluate(self.y))

    def record(self, rows, byes: list) -> dict:
        base = self.eval(rows)
        out = []
        for d, t in byes:
            r2 = [list(r) for r in rows]
            r2[d][t] = 0
            out.append({"d": d + 1, "t": t + 1, "length": small(self.eval(r2))})
        return {"plan": [list(map(int, r)) for r in rows], "length": small(base), "byes": out}

    def header(self, opt: int = -1) -> dict:
        n = self.inst.n_cities
        return {"M": [[small(self.inst[i, j]) for j in range(n)] for i in range(n)],
                "lb": small(int(self.obj.lower_bound())), "ub": small(int(self.obj.upper_bound())),
                "opt": opt, "cfg": tp.cfg_of(self.inst)}


def run(prop: str, tier: str, seed: int) -> int:
    rep = Report(prop, tier, seed)
    rng = random.Random(seed * 86028121 + 8)

    # ---- (MC) the model itself: bounds and bye clause on all small plans
    for n, days, vals in ((2, 2, 2), (3, 2, 2), (4, 2, 2)) if tier == "quick" else ((2, 3, 2), (3, 3, 2), (4, 2, 3)):
        cfg = ("SPECIFICATION Spec\nCONSTANTS N = %d\n D = %d\n MaxDist = %d\n"
               "INVARIANT Bounds\nINVARIANT ByeClause\nINVARIANT ByeValue\n" % (n, days, vals))
        res = tlc.run("ttp/MC_Len", cfg_text=cfg, workers=16, timeout=600)
        rep.add_mc(f"MC_Len n={n} days={days} distances 0..{vals}", res)

    # ---- (A) optimum clause: TLC's complete feasible set x shipped 4-team instances
    I = tp.mods()["Instance"]
    names4 = [nm for nm in I.list_resources() if nm.endswith("4") and nm[:-1].isalpha()
              and I.from_resource(nm).n_cities == 4]
    insts = [I.from_resource(nm) for nm in names4]
    c0 = tp.cfg_of(insts[0])
    if any(tp.cfg_of(i) != c0 for i in insts):
        raise core.MachineryError("4-team instances differ in their settings")
    cset = {k: c0[k] for k in ("hmin", "hmax", "amin", "amax", "smin", "smax")}
    cases = []
    # the symmetry argument used below, checked by TLC on the single round robin: the feasible set equals
    # the closure under team renaming of the feasible plans with a fixed first day
    c1 = {"hmin": 1, "hmax": 3, "amin": 1, "amax": 3, "smin": 0, "smax": 3}
    full1 = rr4_feasible_set(rep, 1, c1)
    if relabel_closure(rr4_feasible_set(rep, 1, c1, fixed=True)) != full1 or not full1:
        raise core.MachineryError("team-renaming closure of the first-day-fixed feasible set is not the feasible set")
    if True:
        if tier == "thorough":
            F = sorted(rr4_feasible_set(rep, 2, cset))
        else:
            F = sorted(relabel_closure(rr4_feasible_set(rep, 2, cset, fixed=True)))
            rep.notes.append("quick: feasible set of the double round robin = renaming closure of TLC's feasible "
                             "plans with the first day fixed (271 465 states); thorough enumerates all 3.26M")
        for inst in insts:
            lo = LenObj(inst)
            lb, ub = inst.get_optimal_plan_length_bounds()
            if lb != ub:
                raise core.MachineryError(f"{inst.name}: optimum not pinned: {lb}..{ub}")
            rec = {"id": f"optimum-{inst.name}", **lo.header(opt=small(lb)),
                   "plans": [lo.record(p, []) for p in F]}
            cases.append(rec)
        rep.family("optimum-over-complete-feasible-set", len(F) * len(insts), len(F))
        rep.nontrivial += len(F)
        rep.exhaustive = True
    # ---- (B)
    n_b = {"quick": 300, "thorough": 2500}[tier]
    for k in range(n_b):
        u = rng.random()
        if u < 0.15:
            inst = rng.choice(insts)
            n, rounds = 4, 2
        else:
            n = rng.choice([2, 4, 4, 6, 8, 10, 12])
            rounds = rng.choice([1, 2, 2, 3])
            if k % 60 == 59:       # many teams (shipped instances have up to 40; 128+ changes the plan's dtype)
                n = rng.choice([32, 34, 40] if tier == "quick" else [32, 34, 40, 64, 128, 130])
                if k == 119:
                    n = 128       # team ids -128..128 no longer fit 8 bits
                rounds = rng.choice([1, 2]) if n <= 40 else 1
            hi = rng.choice([3, 10, 100, 5000])
            sym = rng.random() < 0.5
            M = [[0] * n for _ in range(n)]
            for i in range(n):
                for j in range(n):
                    if i != j:
                        M[i][j] = rng.randint(0 if rng.random() < 0.2 else 1, hi)
            if sym:
                for i in range(n):
                    for j in range(i):
                        M[i][j] = M[j][i]
            for i in range(n):     # the TSP base class wants a positive entry per row
                if max(M[i]) == 0:
                    M[i][(i + 1) % n] = 1
                    if sym:
                        M[(i + 1) % n][i] = 1
            try:
                inst = tp.make_instance(n, rounds, {}, matrix=M)
            except ValueError:
                continue
        lo = LenObj(inst)
        days = (n - 1) * rounds
        plans = []
        for _ in range(rng.randint(2, 4) if n < 100 else 1):
            kind = rng.choice(["consistent", "byes", "circle", "circle-byes", "arbitrary", "away-runs"])
            if kind == "circle" or kind == "circle-byes":
                rows = tp.circle_schedule(n, rounds, rng)
                if kind == "circle-byes":
                    for _ in range(rng.randint(1, 4)):
                        d, t = rng.randrange(days), rng.randrange(n)
                        o = abs(rows[d][t]) - 1
                        if o >= 0:
                            rows[d][t] = 0
                            rows[d][o] = 0
            elif kind == "away-runs":
                rows = tp.random_plan(rng, n, days, "consistent")
                # long away trips with byes in the middle of them
                t = rng.randrange(n)
                for d in range(days):
                    if rows[d][t] > 0:
                        o = rows[d][t] - 1
                        rows[d][t], rows[d][o] = -(o + 1), t + 1
                if days > 2:
                    d = rng.randrange(1, days - 1)
                    o = abs(rows[d][t]) - 1
                    rows[d][t] = 0
                    rows[d][o] = 0
            else:
                rows = tp.random_plan(rng, n, days, kind)
            cells = [(d, t) for d in range(days) for t in range(n) if rows[d][t] != 0]
            if len(cells) > 40:
                cells = rng.sample(cells, 40 if n < 100 else 2)   # (very large plans: TLC re-walks each replacement)
            plans.append(lo.record(rows, cells))
        cases.append({"id": f"rand-{k}", **lo.header(), "plans": plans})
        rep.family("random-plans-and-matrices", len(plans), len(plans))
        rep.nontrivial += len(plans)
        if len(rep.samples) < 2:
            rep.samples.append({"M": cases[-1]["M"], "plan": plans[0]["plan"], "length": plans[0]["length"],
                                "bye_replacements": plans[0]["byes"][:3]})
    # distances far beyond 32 bits (the instance admits bounds up to 10^15): plans without byes on scale * M0
    from ..core import big
    for k in range({"quick": 20, "thorough": 150}[tier]):
        n = rng.choice([4, 4, 6, 8])
        rounds = rng.choice([1, 2])
        scale = rng.choice([10 ** 8, 10 ** 9, 3 * 10 ** 9, 10 ** 10])
        M0 = [[0 if i == j else rng.randint(1, 9) for j in range(n)] for i in range(n)]
        if rng.random() < 0.5:
            for i in range(n):
                for j in range(i):
                    M0[i][j] = M0[j][i]
        try:
            inst = tp.make_instance(n, rounds, {}, matrix=[[v * scale for v in r] for r in M0])
        except ValueError:
            continue
        lo = LenObj(inst)
        plans = []
        for _ in range(3):
            rows = tp.circle_schedule(n, rounds, rng) if rng.random() < 0.5 else \
                tp.random_plan(rng, n, (n - 1) * rounds, "consistent")
            lo.y[:, :] = np.array(rows, dtype=np.int64)
            v = int(lo.obj.evaluate(lo.y))
            plans.append({"plan": rows, "blength": big(v) if v >= 0 else [-1]})
        cases.append({"id": f"huge-distances-{k}", "scale": 1, "bscale": big(scale), "M": M0, "plans": plans,
                      "blb": big(max(0, int(lo.obj.lower_bound()))), "bub": big(max(0, int(lo.obj.upper_bound()))),
                      "cfg": tp.cfg_of(inst), "opt": -1, "lb": 0, "ub": 0})
        rep.family("huge-distances(no byes, scaled matrices)", len(plans), len(plans))
        rep.nontrivial += len(plans)
    vs = core.validate("ttp/Trace_TTP", cases, cfg_text=_trace_cfg(), shards=14)
    core.classify(rep, vs, {c["id"]: c for c in cases}, family="recorded")
    rep.traces += sum(len(c["plans"]) + sum(len(p.get("byes", [])) for p in c["plans"]) for c in cases)
    rep.evaluations = rep.traces
    rep.rule = ("(a) [thorough] every feasible 4-team double round-robin plan (set computed by TLC) on the seven "
                "shipped 4-team instances; (b) seeded random matrices (symmetric/asymmetric, zeros) and plans "
                "(consistent, byes, circle schedules, long away trips, arbitrary) with up to 40 bye replacements "
                "each. non-trivial = every recorded plan (distinct by construction).")
    return core.finish(rep)


def replay(prop: str, case: dict) -> dict:
    if "bscale" in case:      # scaled huge-distance case: evaluate the same plans on the same scaled matrix again
        from ..core import big
        sc = core.unbig(case["bscale"])
        c = case["cfg"]
        inst = tp.make_instance(c["n"], c["rounds"], {}, matrix=[[v * sc for v in r] for r in case["M"]])
        lo = LenObj(inst)
        plans = []
        for p in case["plans"]:
            lo.y[:, :] = np.array(p["plan"], dtype=np.int64)
            v = int(lo.obj.evaluate(lo.y))
            plans.append({"plan": p["plan"], "blength": big(v) if v >= 0 else [-1]})
        rec = {**case, "id": "replay", "plans": plans,
               "blb": big(max(0, int(lo.obj.lower_bound()))), "bub": big(max(0, int(lo.obj.upper_bound())))}
        vs = core.validate("ttp/Trace_TTP", [rec], cfg_text=_trace_cfg())
        return {"clause": vs["replay"], "case": rec}
    c = case["cfg"]
    inst = tp.make_instance(c["n"], c["rounds"], c, matrix=case["M"])
    lo = LenObj(inst)
    rec = {"id": "replay", **lo.header(case.get("opt", -1)),
           "plans": [lo.record(p["plan"], [(b["d"] - 1, b["t"] - 1) for b in p["byes"]]) for p in case["plans"]]}
    vs = core.validate("ttp/Trace_TTP", [rec], cfg_text=_trace_cfg())
    return {"clause": vs["replay"], "case": rec}
