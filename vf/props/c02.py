"""C02: the seven packing objectives equal their documented values, respect the bounds
they declare, convert back to the bin count, and order packings by bin count first.

MC : spec/binpack/PackGen.tla enumerates EVERY feasible packing of tiny instances (any
     position, any row order, sparse bins) and checks tie-breaker range, the documented
     bound formulas and dominance on the specification itself.
A  : every packing TLC enumerated is evaluated by the real objectives (fresh and reused
     objects) and compared with the values TLC computed.
B  : recorded evaluation histories (decoder outputs, arbitrary feasible layouts, huge
     bins whose values exceed 2^53, storage-edge instances) validated by Trace_Obj.
"""
from __future__ import annotations

import random

import numpy as np

from .. import binpack as bp
from .. import core, tlc
from ..core import Report, big, small

_OBJ = []


def objective_classes():
    if not _OBJ:
        from moptipyapps.binpacking2d.objectives.bin_count import BinCount
        from moptipyapps.binpacking2d.objectives.bin_count_and_empty import BinCountAndEmpty
        from moptipyapps.binpacking2d.objectives.bin_count_and_last_empty import (
            BinCountAndLastEmpty,
        )
        from moptipyapps.binpacking2d.objectives.bin_count_and_last_skyline import (
            BinCountAndLastSkyline,
        )
        from moptipyapps.binpacking2d.objectives.bin_count_and_last_small import (
            BinCountAndLastSmall,
        )
        from moptipyapps.binpacking2d.objectives.bin_count_and_lowest_skyline import (
            BinCountAndLowestSkyline,
        )
        from moptipyapps.binpacking2d.objectives.bin_count_and_small import BinCountAndSmall
        _OBJ.extend([BinCount, BinCountAndLastEmpty, BinCountAndEmpty, BinCountAndLastSmall,
                     BinCountAndSmall, BinCountAndLastSkyline, BinCountAndLowestSkyline])
    return _OBJ


class Objectives:
    """One object of each of the seven objective classes (reused over a history)."""

    def __init__(self, inst) -> None:
        self.inst = inst
        self.objs = [c(inst) for c in objective_classes()]

    def bounds(self) -> dict:
        return {"lbs": [big(int(o.lower_bound())) for o in self.objs],
                "ubs": [big(int(o.upper_bound())) for o in self.objs]}

    def record_fields(self, rows: list, nb: int) -> dict:
        """The same packing through the result record of the library (instance names of the drivers repeat)."""
        try:
            r = bp.result_record(self.inst, rows, nb)
            names = [str(o) for o in self.objs]
            return {"rvals": [big(int(r.objectives[n])) for n in names],
                    "rlbs": [big(int(r.objective_bounds[n + ".lowerBound"])) for n in names],
                    "rubs": [big(int(r.objective_bounds[n + ".upperBound"])) for n in names]}
        except (ValueError, TypeError, KeyError) as ex:
            return {"rvals": [], "rlbs": [], "rubs": [], "record_error": f"{type(ex).__name__}: {str(ex)[:160]}"}

    def evaluate(self, rows: list, nb: int) -> dict:
        y = bp._mods()["Packing"](self.inst)
        y[:, :] = np.array(rows, dtype=np.int64).reshape(y.shape)
        y.n_bins = int(nb)
        vals = [int(o.evaluate(y)) for o in self.objs]
        if any(v < 0 for v in vals):
            # negative values cannot be BigNat; report through a sentinel the spec rejects
            vals = [max(v, 0) for v in vals]
        tbc = [int(o.to_bin_count(v)) for o, v in zip(self.objs, vals)]
        return {"rows": [[small(v) for v in r] for r in rows], "nb": small(nb),
                "vals": [big(v) for v in vals], "tbc": [small(t) if abs(t) < 2 ** 31 else -1 for t in tbc]}


def random_layout(inst, rng: random.Random, spread: float = 0.3) -> tuple:
    """An arbitrary feasible layout (not bottom-left): rejection sampling of positions."""
    W, H = int(inst.bin_width), int(inst.bin_height)
    seq = []
    for i in range(inst.n_different_items):
        seq.extend([i + 1] * int(inst[i, 2]))
    rng.shuffle(seq)
    placed = []      # rows
    nb = 1
    for iid in seq:
        w, h = int(inst[iid - 1, 0]), int(inst[iid - 1, 1])
        fits_a = w <= W and h <= H
        fits_b = h <= W and w <= H
        if fits_a and fits_b and rng.random() < 0.5 or not fits_a:
            w, h = h, w
        done = False
        for _ in range(12):
            b = rng.randint(1, nb) if rng.random() > spread else nb + 1
            if b > nb:
                break
            x = rng.randint(0, W - w)
            y = rng.randint(0, H - h)
            if rng.random() < 0.3:
                x = 0
            if rng.random() < 0.3:
                y = 0
            if all(not (r[1] == b and r[2] < x + w and x < r[4] and r[3] < y + h and y < r[5])
                   for r in placed):
                placed.append([iid, b, x, y, x + w, y + h])
                done = True
                break
        if not done:
            nb += 1
            x = rng.randint(0, W - w) if rng.random() < 0.5 else 0
            y = rng.randint(0, H - h) if rng.random() < 0.5 else 0
            placed.append([iid, nb, x, y, x + w, y + h])
    # the first bin may be empty if everything went to "new" bins: renumber contiguously
    used = sorted({r[1] for r in placed})
    perm = list(range(1, len(used) + 1))
    if rng.random() < 0.5:
        rng.shuffle(perm)
    ren = dict(zip(used, perm))
    for r in placed:
        r[1] = ren[r[1]]
    rng.shuffle(placed)
    return placed, len(used)


def fam_huge(rng: random.Random):
    """Bins so large that (bins-1)*area exceeds 2^53, thin items (cheap to construct)."""
    W = rng.randint(10 ** 8, 2 * 10 ** 9)
    H = rng.randint(10 ** 4, 2 * 10 ** 5)
    if rng.random() < 0.3:
        W, H = H, W
    items = []
    for _ in range(rng.randint(1, 3)):
        k = rng.random()
        it = [1, 1] if k < 0.5 else ([rng.randint(1, min(W, 10 ** 6)), 1] if k < 0.75
                                     else [1, rng.randint(1, min(H, 10 ** 6))])
        items.append(it + [rng.randint(1, 60)])
    return W, H, items


def fam_full_huge(rng: random.Random):
    """Bins of more than 2^31 area units that are (almost) completely filled by a few slabs, plus small items:
    the per-bin sums of item areas leave the 32-bit range.  Returns (W, H, items, [(rows, bins), ...])."""
    W, H = rng.randint(46_400, 120_000), rng.randint(46_400, 120_000)
    k = rng.randint(2, 4)
    cuts = sorted(rng.sample(range(1, H), k - 1))
    hs = [b - a for a, b in zip([0] + cuts, cuts + [H])]
    if rng.random() < 0.4:
        hs[-1] -= rng.randint(0, min(50, hs[-1] - 1))      # almost full
    slabs = {}
    for h in hs:
        slabs[h] = slabs.get(h, 0) + 1
    small_it = [rng.randint(1, 40), rng.randint(1, 40)]
    items = sorted([[W, h, c] for h, c in slabs.items()] + [small_it + [rng.randint(2, 3)]])
    ids = {(it[0], it[1]): i + 1 for i, it in enumerate(items)}
    packs = []
    for variant in range(2):
        rows, y0 = [], 0
        for h in hs:
            rows.append([ids[(W, h)], 1, 0, y0, W, y0 + h])
            y0 += h
        n_small = next(it[2] for it in items if it[:2] == small_it)
        nb = 1
        for q in range(n_small):
            b = 2 if variant == 0 else 2 + q          # all small items in bin 2 / each in a bin of its own
            nb = max(nb, b)
            x0 = q * 41 if variant == 0 else 0
            rows.append([ids[tuple(small_it)], b, x0, 0, x0 + small_it[0], small_it[1]])
        rng.shuffle(rows)
        packs.append((rows, nb))
    return W, H, items, packs


def fam_tight(rng: random.Random):
    """k-1 perfectly filled bins (a guillotine dissection) plus one 1x1 item, listed FIRST: the lower bound on
    the bins is k and the packing below attains the declared lower bounds of the area objectives exactly.
    Bin sides are a few hundred to a few thousand, so item areas exceed the range of the int16 instance."""
    from .c03 import guillotine
    while True:
        W, H, items, rows, kk = guillotine(rng, rng.choice([150, 400, 1000, 2500]), rng.choice([1, 2, 3]),
                                           rng.randint(1, 7))
        # only perfect dissections (no trims/drops): area = kk * W * H
        if sum(w * h * r for w, h, r in items) == kk * W * H and min(W, H) >= 2:
            break
    items2 = [[1, 1, 1]] + [it for it in items]
    rows2 = [[r[0] + 1, r[1], r[2], r[3], r[4], r[5]] for r in rows]
    # merge: if a 1x1 type already exists in items, keep it separate (allowed: duplicate types)
    x, y = rng.randint(0, W - 1), rng.randint(0, H - 1)
    rows2.append([1, kk + 1, x, y, x + 1, y + 1])
    rng.shuffle(rows2)
    return W, H, items2, rows2, kk + 1


def _case(cid: str, inst, packs: list, objs: Objectives) -> dict:
    rec = {"id": cid, **bp.inst_record(inst), **objs.bounds(), "packs": []}
    for rows, nb in packs:
        rec["packs"].append(objs.evaluate(rows, nb))
    if rec["packs"]:       # the first packing of the case also through the library's result record
        rec["packs"][0].update(objs.record_fields(packs[0][0], packs[0][1]))
    return rec


def run(prop: str, tier: str, seed: int) -> int:
    rep = Report(prop, tier, seed)
    rng = random.Random(seed * 104729 + 2)

    # ---- the dominance lemma for ALL naturals (TLAPS); the model checks below establish its premises
    # (1 <= tie-breaker <= scale) on every feasible packing of the scope
    import re
    import shutil as _sh
    import subprocess
    # proved on a private copy: tlapm keeps its cache next to the module, and two runs must not share it
    pdir = tlc.work_dir("tlaps")
    _sh.copy(core.ROOT / "proofs" / "Dominance.tla", pdir / "Dominance.tla")
    try:
        pr = subprocess.run(["tlapm", "--toolbox", "0", "0", "Dominance.tla"], cwd=str(pdir), capture_output=True,
                            text=True, timeout=900)
    finally:
        _sh.rmtree(pdir, ignore_errors=True)
    m = re.search(r"All (\d+) obligations? proved", pr.stdout + pr.stderr)
    if not m:
        raise core.MachineryError("TLAPS did not prove proofs/Dominance.tla: " + (pr.stdout + pr.stderr)[-800:])
    rep.notes.append(f"TLAPS: all {m.group(1)} obligations of proofs/Dominance.tla proved (dominance and conversion "
                     "lemmas for all naturals)")

    # ---- (MC + A) every feasible packing of the tiny scope
    consts = {"quick": {"MaxSide": 2, "MaxTypes": 2, "MaxRep": 2, "MaxN": 3},
              "thorough": {"MaxSide": 3, "MaxTypes": 2, "MaxRep": 2, "MaxN": 3}}[tier]
    cfg = "SPECIFICATION Spec\nCONSTANTS\n" + "".join(f"  {k} = {v}\n" for k, v in consts.items()) \
        + "INVARIANT PartialOK\nINVARIANT DoneFeasible\nINVARIANT TieRange\nINVARIANT DocBounds\n" \
          "INVARIANT Conversion\n"
    dump = tlc.work_dir("gen") / "packgen.dump"
    n_gen = 0
    try:
        res = tlc.run("binpack/PackGen", cfg_text=cfg, workers=16, timeout=3000, dump=str(dump))
        rep.add_mc(f"PackGen: all feasible packings {consts}", res)
        objs_cache = {}
        by_inst = {}
        mism = []
        for st in tlc.read_dump(dump):
            if st["pc"] != "done":
                continue
            i = st["inst"]
            key = (i["W"], i["H"], tuple(map(tuple, i["items"])))
            if key not in objs_cache:
                inst = bp.make_instance(i["W"], i["H"], i["items"])
                objs_cache[key] = (inst, Objectives(inst))
            inst, objs = objs_cache[key]
            n_gen += 1
            ev = objs.evaluate(st["rows"], st["nb"])
            real = [core.unbig(v) for v in ev["vals"]]
            spec = [core.unbig(v) for v in st["vals"]]
            by_inst.setdefault(key, []).append((st["nb"], real))
            if real != spec or any(t != st["nb"] for t in ev["tbc"]):
                mism.append({"id": f"gen-{n_gen}", **bp.inst_record(inst), **objs.bounds(),
                             "packs": [ev]})
            if len(rep.samples) < 2 and st["nb"] >= 2:
                rep.samples.append({"family": "tlc-generated", "instance": i, "rows": st["rows"],
                                    "spec_values": spec, "real_values": real})
        if mism:   # let TLC name the clause (batched; none on a correct tree)
            rep.notes.append(f"{len(mism)} TLC-generated packings disagree with the real objectives")
            vs = core.validate("binpack/Trace_Obj", mism[:300])
            core.classify(rep, vs, {c["id"]: c for c in mism[:300]}, family="tlc-generated")
        # dominance over all pairs of TLC-generated packings of one instance (real values)
        for key, lst in by_inst.items():
            best = {}
            for nb, vals in lst:
                lo, hi = best.setdefault(nb, ([10 ** 30] * 7, [-1] * 7))
                for o in range(7):
                    lo[o] = min(lo[o], vals[o])
                    hi[o] = max(hi[o], vals[o])
            ks = sorted(best)
            for a, b in zip(ks, ks[1:]):
                for o in range(7):
                    if not best[a][1][o] < best[b][0][o]:
                        rep.violations.append(core.Verdict(
                            f"gen-dominance-{key}-{o}", "dominance:tlc-generated",
                            {"instance": key, "objective": o, "bins": [a, b]}))
    finally:
        import shutil
        shutil.rmtree(dump.parent, ignore_errors=True)
    rep.family("tlc-generated-feasible-packings", n_gen)
    rep.traces += n_gen
    rep.exhaustive = True

    # ---- (B) recorded histories
    n_inst = {"quick": 220, "thorough": 1600}[tier]
    cases = []
    seen = set()
    for k in range(n_inst):
        u = rng.random()
        try:
            if u < 0.30:
                inst = bp.make_instance(*bp.fam_random(rng, 14, 5, 3, 14))
                fam = "random"
            elif u < 0.50:
                inst = bp.make_instance(*bp.fam_dense(rng))
                fam = "dense"
            elif u < 0.62:
                inst = bp.make_instance(*bp.fam_degenerate(rng))
                fam = "degenerate"
            elif u < 0.74:
                inst = bp.make_instance(*bp.fam_storage_edge(rng))
                fam = "storage-edge"
            elif u < 0.77:
                inst = bp.make_instance(*fam_huge(rng))
                fam = "huge-area"
            elif u < 0.80:
                W, H, its, fpacks = fam_full_huge(rng)
                inst = bp.make_instance(W, H, its)
                fam = "full-huge-bins"
            elif u < 0.92:
                W, H, its, trows, tk = fam_tight(rng)
                inst = bp.make_instance(W, H, its)
                fam = "tight-lower-bound"
            else:
                inst = bp.fam_shipped(rng, 40)
                fam = "shipped"
        except ValueError:
            continue
        objs = Objectives(inst)
        packs = []
        if fam == "tight-lower-bound":
            packs.append((trows, tk))
        if fam == "full-huge-bins":
            packs.extend(fpacks)
        for _ in range(rng.randint(3, 5)):
            v = rng.random()
            if fam == "full-huge-bins":
                break          # (only the constructed packings: rejection sampling cannot place the slabs)
            if v < 0.35 and fam != "huge-area":
                st = bp.decode_fresh(inst, rng.choice([1, 2]), bp.random_perm(inst, rng))
                rows, nb = st["rows"], st["nb"]
                if rng.random() < 0.5:
                    rows = rows[:]
                    rng.shuffle(rows)
            else:
                rows, nb = random_layout(inst, rng, rng.choice([0.05, 0.3, 0.7, 1.0]))
            packs.append((rows, nb))
        cid = f"{fam}-{k}"
        rec = _case(cid, inst, packs, objs)
        cases.append(rec)
        nt = 0
        for p in rec["packs"]:
            key = (rec["W"], rec["H"], str(rec["items"]), str(p["rows"]))
            if p["nb"] >= 2 and key not in seen:
                seen.add(key)
                nt += 1
        rep.family(fam, len(packs), nt)
        rep.nontrivial += nt
        if sum(1 for s in rep.samples if s.get("family") == fam) < 1 and nt:
            rep.samples.append({"family": fam, "W": rec["W"], "H": rec["H"], "items": rec["items"],
                                "first_packing": rec["packs"][0]["rows"][:8],
                                "values": [core.unbig(v) for v in rec["packs"][0]["vals"]]})
    vs = core.validate("binpack/Trace_Obj", cases, shards=14)
    core.classify(rep, vs, {c["id"]: c for c in cases}, family="recorded")
    rep.traces += sum(len(c["packs"]) for c in cases)
    rep.evaluations = rep.traces * 7
    rep.rule = ("(a) all feasible packings of all instances of the TLC scope " + str(consts) +
                " (any position, any row order), each evaluated by 7 real objectives and compared with "
                "TLC's values; (b) seeded histories on one set of objective objects: decoder outputs "
                "(rows shuffled) and arbitrary feasible layouts of random/dense/degenerate/storage-edge/"
                "huge-area/shipped instances. non-trivial = distinct (instance, rows) of (b) with >= 2 bins.")
    rep.assumptions = ["coordinates below 2^31 (TLC integers); values via BigNat limbs"]
    return core.finish(rep)


def replay(prop: str, case: dict) -> dict:
    inst = bp.make_instance(case["W"], case["H"], case["items"])
    objs = Objectives(inst)
    rec = _case("replay", inst, [(p["rows"], p["nb"]) for p in case["packs"]], objs)
    vs = core.validate("binpack/Trace_Obj", [rec])
    return {"clause": vs["replay"], "case": rec}
