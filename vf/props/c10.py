"""C10: run_ode terminates and returns either a complete, bounded, self-consistent
simulation or the single failure row; the figure of merit equals the documented weighted
sum; finite differences recover ds/dt.

MC : spec/dyn/OdeRun.tla - the retry machine: at most 5 attempts, strictly decreasing time
     limits, termination (given that one attempt terminates).
B  : a catalogue of (equations, controller) programs - bundled systems/controllers, zero and
     linear dynamics, exploding systems, controllers returning 1e50 / NaN / inf always or
     after some time - is run through the real run_ode under a wall-clock guard; the
     recorded array, the controller re-invoked per row and the hook's per-cycle time limits
     are validated by Trace_Ode (F64 order / bit-equality statements).  j_from_ode,
     t_from_ode and diff_from_ode are evaluated on exactly representable arrays and TLC
     recomputes them as fractions.
NOT covered: agreement with analytic solutions (numeric accuracy; no reals in TLA+).
"""
from __future__ import annotations

import math
import random
import signal
from fractions import Fraction

import numpy as np

from .. import core, tlc
from ..core import Report, f64, small


class _Timeout(Exception):
    pass


def _alarm(_s, _f):
    raise _Timeout


# ---- program catalogue
def eq_zero(state, _t, _c, out):
    out.fill(0.0)


def eq_decay(state, _t, c, out):
    out[:] = -state
    out[0] += c[0]


def eq_explode(state, _t, c, out):
    out[:] = state * state + 1.0 + c[0] * 0.0


def eq_fast(state, _t, c, out):
    out[:] = 50.0 * state + c[0]


def eq_ramp(state, _t, c, out):
    # slow (derivative well inside the bounds) but unbounded growth: the STATE leaves (-1e10, 1e10)
    out[:] = 1e9 + 0.0 * c[0]


def mk_ctrl(kind: str, t0: float):
    def ctrl(state, t, params, out):
        if kind == "zero":
            out[0] = 0.0
        elif kind == "linear":
            acc = 0.0      # plain sequential float arithmetic: independent of array alignment
            for q in range(len(state)):
                acc += float(params[q]) * float(state[q])
            out[0] = acc
        elif kind == "huge":
            out[0] = 1e50
        elif kind == "huge-after":
            out[0] = 1e50 if t > t0 else 0.5
        elif kind == "nan":
            out[0] = math.nan
        elif kind == "nan-after":
            out[0] = math.nan if t > t0 else 0.25
        elif kind == "inf-after":
            out[0] = math.inf if t > t0 else -0.25
        elif kind == "big-but-ok":
            out[0] = 9.9e9
        elif kind == "edge":
            out[0] = 1e10        # exactly the bound: not inside the open interval
        elif kind == "time":
            out[0] = 0.125 * t + 0.5     # depends smoothly on the time of the row
        elif kind == "time-state":
            out[0] = 0.25 * t - 0.5 * float(state[0]) / (1.0 + abs(float(state[0])))
    return ctrl


# Wall-clock guards: generous (a slow machine must not look like non-termination) until a first case has run into
# its guard.  From then on the run reports a violation anyway, and the remaining cases get a guard derived from the
# slowest completed case (x50, at least 60 s; 20 s after three timeouts) so that a code change that makes a whole
# class of simulations hang costs minutes, not hours.
_GUARD = {"timeouts": 0, "slowest": 0.0}


def _guard_for(guard_s: int) -> int:
    if _GUARD["timeouts"] == 0:
        return guard_s
    if _GUARD["timeouts"] >= 3:
        return 20
    return int(min(guard_s, max(60.0, 50.0 * _GUARD["slowest"] + 30.0)))


def run_case(cid: str, eq, ctrl, params, start, steps: int, limit: float, guard_s: int = 900) -> dict:
    import time as _time
    from moptipyapps.dynamic_control import ode
    if ode._VERIF_EVENTS is None:
        raise core.MachineryError("run_ode hook not enabled")
    ode._VERIF_EVENTS.clear()
    n = len(start)
    st = np.array(start, dtype=np.float64)
    rec = {"id": cid, "kind": "run", "n": n, "cdim": 1, "steps": steps, "limit": f64(limit),
           "start": [f64(v) for v in st], "timeout": 0, "rows": [], "ctrl": [], "cycles": []}
    old = signal.signal(signal.SIGALRM, _alarm)
    signal.alarm(_guard_for(guard_s))
    t0 = _time.monotonic()
    try:
        with np.errstate(all="ignore"):
            res = ode.run_ode(st.copy(), eq, ctrl, params, 1, steps, limit)
        _GUARD["slowest"] = max(_GUARD["slowest"], _time.monotonic() - t0)
    except _Timeout:
        rec["timeout"] = 1
        _GUARD["timeouts"] += 1
        res = None
    finally:
        signal.alarm(0)
        signal.signal(signal.SIGALRM, old)
    rec["cycles"] = [{"c": int(c), "limit": f64(lim)} for c, lim in ode._VERIF_EVENTS]
    rec["_res"] = res
    if res is not None:
        out = np.empty(1)
        for row in res:
            rec["rows"].append([f64(v) for v in row])
            out[0] = 0.0
            with np.errstate(all="ignore"):
                ctrl(row[0:n].copy(), float(row[-1]), params, out)
            rec["ctrl"].append([f64(out[0])])
        rec["shape"] = list(res.shape)
    return rec


def multi_case(cid: str, rng: random.Random) -> dict:
    """multi_run_ode with different budgets for test and training states, two collectors (a recorder and a
    ResultsLog), judged against direct run_ode / j_from_ode / t_from_ode calls."""
    import io
    from moptipy.utils.strings import float_to_str
    from moptipyapps.dynamic_control import ode
    from moptipyapps.dynamic_control.results_log import ResultsLog
    sd = rng.choice([2, 3])
    cd = rng.choice([1, 1, 2])
    a = [[rng.uniform(-0.6, 0.2) for _ in range(sd)] for _ in range(sd)]

    def eq(state, _t, control, out, a=a, sd=sd):
        for i in range(sd):
            acc = 0.0
            for j in range(sd):
                acc += a[i][j] * state[j]
            out[i] = acc + control[i % len(control)]

    def ctrl(state, t, params, dest, cd=cd):
        for i in range(cd):
            dest[i] = params[i] * state[i % len(state)] + 0.01 * t
    params = np.array([rng.uniform(-0.5, 0.5) for _ in range(cd)])
    tests = [np.array([rng.uniform(-1, 1) for _ in range(sd)]) for _ in range(rng.randint(0, 3))]
    trains = [np.array([rng.uniform(-1, 1) for _ in range(sd)]) for _ in range(rng.randint(1, 3))]
    t_steps, r_steps = rng.sample([7, 12, 20, 33], 2)
    t_time, r_time = rng.sample([0.5, 1.5, 2.5, 4.0], 2)
    use, gamma = rng.choice([-1, 1, sd]), rng.choice([0.1, 0.5])
    got = []
    sio = io.StringIO()
    log = ResultsLog(sd, sio)
    with np.errstate(all="ignore"):
        ode.multi_run_ode(tests, trains, [lambda i, o, j, t: got.append((i, o.copy(), j, t)), log.collector],
                          eq, ctrl, params, cd, t_steps, t_time, r_steps, r_time, use, gamma)
    text = sio.getvalue()
    calls = []
    rows_ok = []
    lines = text.split("\n")
    if lines and lines[-1] == "":
        lines = lines[:-1]
    for k, (idx, o, j, t) in enumerate(got):
        sp, grp = (tests[k], "test") if k < len(tests) else (trains[min(k - len(tests), len(trains) - 1)], "train")
        with np.errstate(all="ignore"):
            d = ode.run_ode(sp, eq, ctrl, params, cd, t_steps if grp == "test" else r_steps,
                            t_time if grp == "test" else r_time)
        same = d.shape == o.shape and bool(np.array_equal(d, o))
        # which group's budget does the delivered simulation correspond to?
        calls.append({"index": small(int(idx)), "group": grp, "same_ode": 1 if same else 0,
                      "same_j": 1 if same and float(ode.j_from_ode(d, sd, use, gamma)) == float(j) else 0,
                      "same_t": 1 if same and float(ode.t_from_ode(d)) == float(t) else 0})
        want = ";".join([float_to_str(float(j)), float_to_str(float(t)), str(len(o))]
                        + [float_to_str(float(v)) for v in o[0][:sd]] + [float_to_str(float(v)) for v in o[-1][:sd]])
        rows_ok.append(1 if k + 1 < len(lines) and lines[k + 1] == want else 0)
    header = ";".join(["figureOfMerit", "totalTime", "nSteps"] + [f"start{i}" for i in range(sd)]
                      + [f"end{i}" for i in range(sd)])
    return {"id": cid, "kind": "multi", "ntest": len(tests), "ntrain": len(trains), "calls": calls,
            "log": {"header_ok": 1 if lines and lines[0] == header and text.count("figureOfMerit") == 1 else 0,
                    "nlines": len(lines), "rows_ok": rows_ok},
            "setup": {"sd": sd, "cd": cd, "test_steps": t_steps, "train_steps": r_steps, "test_time": t_time,
                      "train_time": r_time, "use": use, "gamma": gamma}}


def sampling_case(cid: str, rng: random.Random) -> dict | None:
    """A contracting linear system (damped oscillator or decay, linear state feedback) simulated with few and with
    many rows; the states at the common times, as exact dyadic numbers."""
    from moptipyapps.dynamic_control import ode
    osc = rng.random() < 0.7
    damp, om = rng.uniform(0.05, 0.6), rng.uniform(0.8, 3.0)
    k1 = rng.uniform(-0.3, 0.3)

    def eq(state, _t, control, out):
        if osc:
            out[0] = state[1]
            out[1] = -om * om * state[0] - 2.0 * damp * state[1] + control[0]
        else:
            out[0] = -damp * state[0] + control[0]
            out[1] = -om * state[1]

    def ctrl(state, _t, params, dest):
        dest[0] = params[0] * state[0]
    params = np.array([k1 if not osc else -abs(k1)])
    start = np.array([rng.uniform(-1, 1), rng.uniform(-1, 1)])
    T = rng.choice([2.0, 5.0, 10.0, 20.0])
    kc = rng.choice([2, 3, 4, 7, 12])
    mult = rng.choice([16, 40, 100])
    with np.errstate(all="ignore"):
        coarse = ode.run_ode(start.copy(), eq, ctrl, params, 1, kc + 1, T)
        fine = ode.run_ode(start.copy(), eq, ctrl, params, 1, kc * mult + 1, T)
    if len(coarse) != kc + 1 or len(fine) != kc * mult + 1:
        return None       # a failure row: judged by the run cases
    from fractions import Fraction

    def fx(v: float) -> dict:
        return core.sbig(int(round(Fraction(float(v)) * (1 << 60))))
    pairs = []
    for i in range(1, kc + 1):
        if abs(coarse[i, -1] - fine[i * mult, -1]) > 1e-9 * T:
            return None   # (the two time grids do not share this point: nothing to compare)
        for d in range(2):
            pairs.append({"a": fx(coarse[i, d]), "b": fx(fine[i * mult, d]), "coarse": repr(float(coarse[i, d])),
                          "fine": repr(float(fine[i * mult, d])), "t": repr(float(coarse[i, -1]))})
    m = 1.0 + float(np.max(np.abs(fine[:, 0:2])))
    return {"id": cid, "kind": "sampling", "pairs": pairs, "m": fx(m),
            "setup": {"oscillator": osc, "damping": damp, "omega": om, "feedback": float(params[0]), "T": T,
                      "rows_coarse": kc + 1, "rows_fine": kc * mult + 1, "start": start.tolist()}}


def describe_case(cid: str, rng: random.Random, workdir) -> dict:
    """System.describe_system on an own system whose test and training budgets differ; the results table is judged
    line by line against direct run_ode / j_from_ode / t_from_ode calls with the budget of the line's group."""
    from moptipy.utils.strings import float_to_str
    from moptipyapps.dynamic_control import ode
    from moptipyapps.dynamic_control.system import System
    sd = rng.choice([2, 3])
    a = [rng.uniform(-0.9, -0.1) for _ in range(sd)]

    class Own(System):
        def equations(self, state, time, control, out):
            for i in range(sd):
                out[i] = a[i] * state[i] + (control[0] if i == 0 else 0.0)

    tests = np.array([[rng.uniform(-1, 1) for _ in range(sd)] for _ in range(rng.randint(1, 2))])
    trains = np.array([[rng.uniform(-1, 1) for _ in range(sd)] for _ in range(rng.randint(1, 3))])
    t_steps, r_steps = rng.sample([10, 14, 21, 33], 2)
    t_time, r_time = rng.sample([0.5, 1.5, 2.5, 4.0], 2)
    gamma, use = rng.choice([0.1, 0.5]), rng.choice([-1, 1, sd])
    sysm = Own(f"own{cid.replace('-', '')}", sd, 1, sd if sd == 2 else 3, use, gamma, tests, trains,
               t_steps, t_time, r_steps, r_time)
    p0 = rng.uniform(-0.5, 0.5)

    def ctrl(state, t, params, dest):
        dest[0] = params[0] * state[0] + 0.01 * t
    params = np.array([p0])
    out = workdir / cid
    with np.errstate(all="ignore"):
        files = sysm.describe_system(None, ctrl, params, "d", str(out))
    text = next(f for f in files if str(f).endswith(".csv")).read_all_str()
    lines = [ln for ln in text.split("\n") if ln != ""]
    rows_ok = []
    k = 0
    for grp, states, steps, tm in (("test", tests, t_steps, t_time), ("train", trains, r_steps, r_time)):
        for sp in states:
            with np.errstate(all="ignore"):
                o = ode.run_ode(sp, sysm.equations, ctrl, params, 1, steps, tm)
                j, t = ode.j_from_ode(o, sd, sysm.state_dims_in_j, gamma), ode.t_from_ode(o)
            want = ";".join([float_to_str(float(j)), float_to_str(float(t)), str(len(o))]
                            + [float_to_str(float(v)) for v in o[0][:sd]] + [float_to_str(float(v)) for v in o[-1][:sd]])
            k += 1
            rows_ok.append(1 if k < len(lines) and lines[k] == want else 0)
    header = ";".join(["figureOfMerit", "totalTime", "nSteps"] + [f"start{i}" for i in range(sd)]
                      + [f"end{i}" for i in range(sd)])
    return {"id": cid, "kind": "describe", "ntest": len(tests), "ntrain": len(trains),
            "header_ok": 1 if lines and lines[0] == header else 0, "nlines": len(lines), "rows_ok": rows_ok,
            "setup": {"sd": sd, "test_steps": t_steps, "train_steps": r_steps, "test_time": t_time,
                      "train_time": r_time, "use": use, "gamma": gamma}}


def jreal_case(cid: str, res: np.ndarray, n: int, use: int, gamma: float):
    """The figure of merit of a real simulation output, with every double handed to TLC as an exact scaled natural."""
    from moptipyapps.dynamic_control.ode import j_from_ode
    K = 90
    one = 1 << K

    def sc(v: float) -> list:
        return core.big(int(round(Fraction(abs(float(v))) * one)))
    j = float(j_from_ode(res, n, use, gamma))
    if not (0.0 <= j < 1e30):
        return None
    m = len(res)
    u = n if use <= 0 else use
    return {"id": cid, "kind": "jreal", "one": core.big(one), "g": sc(gamma), "T": sc(res[-1, -1]), "j": sc(j),
            "w": [sc(Fraction(float(res[i + 1, -1])) - Fraction(float(res[i, -1]))) for i in range(m - 1)],
            "st": [[sc(v) for v in res[i, 0:u]] for i in range(m - 1)],
            "ct": [[sc(v) for v in res[i, n:-1]] for i in range(m - 1)]}


def merit_case(cid: str, rng: random.Random) -> dict:
    from moptipyapps.dynamic_control.ode import diff_from_ode, j_from_ode, t_from_ode
    sd = rng.randint(2, 4)
    cd = rng.randint(1, 2)
    use = rng.choice([-1, sd, rng.randint(1, sd)])
    m = rng.randint(2, 9)
    g4 = rng.choice([1, 2, 4, 8])
    T = rng.choice([1, 2, 4, 8])
    # m-1 positive power-of-two-ish increments (in units of 1/8) summing to 8*T
    total = 8 * T
    incs = [1] * (m - 1)
    rest = total - (m - 1)
    while rest > 0:
        k = rng.randrange(m - 1)
        incs[k] += 1
        rest -= 1
    # finite differences divide by the increment: keep increments powers of two for those (else skip diffs)
    times8 = [0]
    for a in incs:
        times8.append(times8[-1] + a)
    rows = [[rng.randint(-6, 6) for _ in range(sd + cd)] for _ in range(m)]
    ode = np.array([r + [t / 8.0] for r, t in zip(rows, times8)], dtype=np.float64)
    J = j_from_ode(ode, sd, use, g4 / 4.0)
    fj = Fraction(float(J))
    ft = Fraction(float(t_from_ode(ode)))
    pow2 = all(a & (a - 1) == 0 for a in incs)
    diffs = []
    if pow2:
        _sc, dd = diff_from_ode(ode, sd)
        for i in range(m - 1):
            row = []
            for k in range(sd):
                q = Fraction(float(dd[i][k]))
                ok = abs(q.numerator) < 2 ** 31 - 1 and q.denominator < 2 ** 31 - 1
                row.append({"n": q.numerator if ok else 1, "d": q.denominator if ok else 0})
            diffs.append(row)
    else:
        for i in range(m - 1):
            # exact rational finite difference computed here is NOT used as an oracle: give TLC the identity
            diffs.append([{"n": small(8 * (rows[i + 1][k] - rows[i][k])), "d": small(incs[i])} for k in range(sd)])
    def fit(fr: Fraction) -> tuple:
        # the documented value is a small fraction; a value that does not even fit TLC's integers is certainly
        # not it: hand over a sentinel that cannot satisfy the identity
        if abs(fr.numerator) >= 2 ** 31 - 1 or fr.denominator >= 2 ** 31 - 1:
            return 1, 0
        return fr.numerator, fr.denominator
    jn, jd = fit(fj)
    tn, td = fit(ft)
    return {"id": cid, "kind": "merit", "sd": sd, "use": sd if use <= 0 else use, "g4": g4, "times8": times8,
            "rows": rows, "jn": jn, "jd": jd, "tn": tn, "td": td, "diffs": diffs, "diffs_from_code": 1 if pow2 else 0}


def run(prop: str, tier: str, seed: int) -> int:
    rep = Report(prop, tier, seed)
    rng = random.Random(seed * 2860486313 + 10)
    res = tlc.run("dyn/OdeRun", cfg_text="SPECIFICATION Spec\nCONSTANTS MaxCycles = 5\n TopRank = 8\n"
                  "INVARIANT BoundedCycles\nINVARIANT Decreasing\nPROPERTY Terminates\n", workers=4, timeout=600)
    rep.add_mc("OdeRun retry machine (5 cycles, 8 limit ranks) incl. liveness", res)

    cases = []
    n_prog = {"quick": 70, "thorough": 600}[tier]
    eqs = {"zero": eq_zero, "decay": eq_decay, "explode": eq_explode, "fast": eq_fast, "ramp": eq_ramp}
    kinds = ["zero", "linear", "huge", "huge-after", "nan", "nan-after", "inf-after", "big-but-ok", "edge",
             "time", "time-state", "time"]
    for k in range(n_prog):
        en = rng.choice(list(eqs))
        ck = rng.choice(kinds)
        n = rng.randint(2, 3)
        start = [rng.choice([0.0, 1.0, -1.5, 0.25, 3.0]) for _ in range(n)]
        params = np.array([rng.uniform(-2, 2) for _ in range(n)])
        steps = rng.choice([10, 10, 50, 50, 200] + ([1000] if tier == "thorough" else []))
        limit = rng.choice([1.0, 2.5, 10.0, 50.0])
        t0 = rng.choice([0.1, 0.5, 0.9]) * limit
        cases.append(run_case(f"prog-{k}-{en}-{ck}", eqs[en], mk_ctrl(ck, t0), params, start, steps, limit))
        rep.family(f"programs", 1, 1 if len(cases[-1]["cycles"]) > 1 or len(cases[-1]["rows"]) == 1 else 0)
        rep.nontrivial += 1 if len(cases[-1]["cycles"]) > 1 or len(cases[-1]["rows"]) == 1 else 0
    # bundled systems x bundled controllers
    from moptipyapps.dynamic_control.controllers.ann import anns
    from moptipyapps.dynamic_control.controllers.linear import linear
    from moptipyapps.dynamic_control.controllers.quadratic import quadratic
    from moptipyapps.dynamic_control.systems.lorenz import LORENZ_4
    from moptipyapps.dynamic_control.systems.stuart_landau import STUART_LANDAU_4
    from moptipyapps.dynamic_control.systems.three_coupled_oscillators import THREE_COUPLED_OSCILLATORS
    for k in range({"quick": 14, "thorough": 120}[tier]):
        sysm = rng.choice([LORENZ_4, STUART_LANDAU_4, THREE_COUPLED_OSCILLATORS])
        try:
            ctl = rng.choice([linear, quadratic, lambda q: anns(q)[0]])(sysm)
        except ValueError:
            ctl = anns(sysm)[0]      # polynomial controllers exist for 2 and 3 state dimensions only
        scale = rng.choice([0.1, 1.0, 8.0, 32.0])
        params = np.array([rng.uniform(-scale, scale) for _ in range(ctl.param_dims)])
        start = [float(v) for v in sysm.training_starting_states[rng.randrange(len(sysm.training_starting_states))]]
        steps = rng.choice([10, 50])
        limit = rng.choice([1.0, 5.0, 20.0])
        c = run_case(f"bundled-{k}-{sysm.name}-{ctl.name}", sysm.equations, ctl.controller, params, start, steps,
                     limit, guard_s=1800)
        if sysm.control_dims == 1:
            cases.append(c)
            rep.family("bundled-systems", 1, 1)
            rep.nontrivial += 1
    # the figure of merit of real simulation outputs (short complete runs), recomputed exactly by TLC
    n_j = 0
    for c in list(cases):
        res_ = c.pop("_res", None)
        if res_ is not None and 1 < len(res_) <= 50 and n_j < {"quick": 25, "thorough": 200}[tier] \
                and float(np.max(np.abs(res_))) < 1e6:
            jc = jreal_case("j-" + c["id"], res_, c["n"], rng.choice([-1, 1, c["n"]]), rng.choice([0.1, 0.5, 0.01]))
            if jc is not None:
                cases.append(jc)
                n_j += 1
    rep.family("figure-of-merit-of-real-simulations", n_j, n_j)
    rep.nontrivial += n_j
    n_m = {"quick": 300, "thorough": 3000}[tier]
    for k in range(n_m):
        cases.append(merit_case(f"merit-{k}", rng))
    rep.family("figure-of-merit-on-exact-arrays", n_m, n_m)
    rep.nontrivial += n_m
    n_mu = {"quick": 40, "thorough": 300}[tier]
    for k in range(n_mu):
        cases.append(multi_case(f"multi-{k}", rng))
    rep.family("multi-run + results log", n_mu, n_mu)
    rep.nontrivial += n_mu
    n_sa = 0
    for k in range({"quick": 60, "thorough": 500}[tier]):
        sc = sampling_case(f"sampling-{k}", rng)
        if sc is not None:
            cases.append(sc)
            n_sa += 1
    rep.family("coarse-vs-fine sampling of contracting linear systems", n_sa, n_sa)
    rep.nontrivial += n_sa
    n_de = {"quick": 6, "thorough": 40}[tier]
    dwork = tlc.work_dir("describe")
    try:
        for k in range(n_de):
            cases.append(describe_case(f"describe-{k}", rng, dwork))
    finally:
        import shutil
        shutil.rmtree(dwork, ignore_errors=True)
    rep.family("describe_system (own systems, differing test / training budgets)", n_de, n_de)
    rep.nontrivial += n_de
    vs = core.validate("dyn/Trace_Ode", cases, shards=14)
    core.classify(rep, vs, {c["id"]: c for c in cases}, family="recorded")
    rep.traces += len(cases)
    rep.evaluations = rep.traces
    outcomes = {}
    for c in cases:
        if c["kind"] == "run":
            key = ("timeout" if c["timeout"] else ("failure-row" if len(c["rows"]) == 1 else "complete"),
                   len(c["cycles"]))
            outcomes[str(key)] = outcomes.get(str(key), 0) + 1
    rep.notes.append({"run_outcomes (kind, cycles)": outcomes})
    s = next(c for c in cases if c["kind"] == "run" and len(c["cycles"]) > 1)
    rep.samples.append({"id": s["id"], "steps": s["steps"], "cycles": s["cycles"], "rows_returned": len(s["rows"]),
                        "first_row": s["rows"][0]})
    rep.samples.append(next(c for c in cases if c["kind"] == "merit"))
    rep.rule = ("programs = (equations, controller) pairs from a catalogue (zero/decay/explode/fast dynamics x "
                "controllers that are fine, huge, NaN or inf always or after a time) x random parameters, starts, steps "
                "{10,50,200,(1000)} and limits, plus bundled systems with bundled controllers; figure-of-merit cases on "
                "exactly representable arrays. non-trivial = runs that needed more than one cycle or ended in the "
                "failure row, and all merit cases.")
    rep.assumptions = ["a single RK45 attempt terminates (guarded by a wall clock alarm of 120/300 s)",
                       "agreement with analytic solutions is NOT checked (numeric accuracy is out of reach of TLA+)"]
    return core.finish(rep)


def replay(prop: str, case: dict) -> dict:
    """Re-validate the recorded case against the specification (the record holds the input and what the real code
    returned for it; re-executing the code on exactly this input is what re-running the check with the same seed does)."""
    rec = dict(case)
    rec["id"] = "replay"
    vs = core.validate("dyn/Trace_Ode", [rec])
    return {"clause": vs["replay"], "case": rec, "mode": "revalidated-recorded-case"}
