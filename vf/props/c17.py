"""C17: decoded instances keep the template's name, bin size and item count, can be packed
into exactly min_bins bins and still need that many; decoding is repeatable; the similarity
and hardness objectives stay in [0, 1].

MC : spec/instgen/MC_InstDecoder.tla - ALL cut/trim sequences on all small templates keep
     the geometric witness feasible in k bins and the area above (k-1)*W*H.
B  : the real decoder runs with the (guarded) hook recording every cut; Trace_InstGen
     replays the events through the cut machine (each must be a legal Cut/Trim), compares
     the final machine state with the produced instance and checks the statement's clauses.
     Vectors: random, all -1/0/1, float neighbours of -1, 0, 1, many slack pairs; templates:
     small synthetic ones and shipped instances.
"""
from __future__ import annotations

import random

import numpy as np

from .. import binpack as bp
from .. import core, tlc
from ..core import Report, f64, small


def _mods():
    from moptipyapps.binpacking2d.instgen import inst_decoding
    from moptipyapps.binpacking2d.instgen.errors import Errors
    from moptipyapps.binpacking2d.instgen.errors_and_hardness import ErrorsAndHardness
    from moptipyapps.binpacking2d.instgen.hardness import Hardness
    from moptipyapps.binpacking2d.instgen.instance_space import InstanceSpace
    return inst_decoding, InstanceSpace, Errors, Hardness, ErrorsAndHardness


class DecodeTimeout(Exception):
    pass


def _alarm(_s, _f):
    raise DecodeTimeout


# wall-clock guard around every decode call (a decode takes milliseconds): generous until a first call has run into
# it, short afterwards - the run is a violation by then, and a change that makes a class of vectors loop for ever
# must cost minutes, not hours
_GUARD = {"timeouts": 0}


def guarded_decode(dec, xa, y) -> None:
    import signal
    old = signal.signal(signal.SIGALRM, _alarm)
    signal.alarm(300 if _GUARD["timeouts"] == 0 else (30 if _GUARD["timeouts"] < 3 else 5))
    try:
        dec.decode(xa, y)
    except DecodeTimeout:
        _GUARD["timeouts"] += 1
        raise
    finally:
        signal.alarm(0)
        signal.signal(signal.SIGALRM, old)


def _same_inst(a, b) -> bool:
    return (a.name == b.name and a.bin_width == b.bin_width and a.bin_height == b.bin_height and a.shape == b.shape
            and bool(np.array_equal(np.asarray(a), np.asarray(b))))


def decode_case(cid: str, tmpl, x: list, with_objs: bool, rng: random.Random) -> dict:
    idm, Space, Errors, Hardness, EH = _mods()
    if idm._VERIF_EVENTS is None:
        raise core.MachineryError("decoder hook is not enabled (MOPTIPYAPPS_VERIF=1 must be set before import)")
    space = Space(tmpl)
    dec = idm.InstanceDecoder(space)
    xa = np.array(x, dtype=np.float64)
    idm._VERIF_EVENTS.clear()
    y: list = []
    guarded_decode(dec, xa, y)
    events = [{"ph": e[0], "i": small(e[1]), "dim": e[2], "pos": small(e[3])} for e in idm._VERIF_EVENTS]
    inst = y[0]
    y2: list = [inst]
    guarded_decode(dec, xa, y2)
    inst2 = y2[0]
    same = _same_inst(inst, inst2)
    # a receiver is used again and again by an optimisation process: decode ANOTHER vector into the receiver that
    # holds this instance; what it delivers must be the instance of that other vector (= its fresh decoding)
    xo = np.array([rng.uniform(-1, 1) for _ in range(len(x))], dtype=np.float64)
    fresh: list = []
    guarded_decode(dec, xo, fresh)
    reused: list = [inst]
    guarded_decode(dec, xo, reused)
    reuse_ok = len(reused) >= 1 and _same_inst(reused[0], fresh[0])
    reused2: list = []
    guarded_decode(dec, xa, reused2)
    guarded_decode(dec, xo, reused2)      # ... and a receiver that started empty
    reuse_ok = reuse_ok and _same_inst(reused2[0], fresh[0])
    rec = {"id": cid,
           # the template's own data (not what the space derived from it)
           "t": {"W": small(tmpl.bin_width), "H": small(tmpl.bin_height),
                 "k": small(min(tmpl.lower_bound_bins, tmpl.n_items)),
                 "n": small(tmpl.n_items), "name": str(tmpl.name) + "n",
                 "titems": [[small(tmpl[i, 0]), small(tmpl[i, 1]), small(tmpl[i, 2])]
                            for i in range(tmpl.n_different_items)]},
           "space_min_bins": small(space.min_bins),
           "x": [float(v) for v in x], "events": events,
           "res": {"name": inst.name, "W": small(inst.bin_width), "H": small(inst.bin_height),
                   "n_items": small(inst.n_items), "area": small(inst.total_item_area),
                   "lb": small(inst.lower_bound_bins),
                   "items": [[small(inst[i, 0]), small(inst[i, 1]), small(inst[i, 2])]
                             for i in range(inst.n_different_items)]},
           "again": 1 if same else 0, "reuse": 1 if reuse_ok else 0, "objs": []}
    # the similarity objective is cheap: evaluated for every decoded instance.  C17 only states its range (and 0
    # for the template); the documented deviation sum (spec/instgen/Similarity.tla) is demanded by C12, whose
    # statement asks for an independent re-evaluation of the logged value - the field "vd" that would switch the
    # comparison on here is therefore not recorded.
    e = Errors(space)
    v = float(e.evaluate(y))
    rec["objs"].append({"name": "errors", "v": f64(v), "v2": f64(float(e.evaluate(y)))})
    if with_objs:
        rec["objs"].append({"name": "errors-of-template", "v": f64(float(e.evaluate([tmpl]))),
                            "v2": f64(float(e.evaluate(tmpl)))})
        h = Hardness(max_fes=rng.choice([16, 40]), n_runs=2)
        rec["objs"].append({"name": "hardness", "v": f64(float(h.evaluate(y))), "v2": f64(float(h.evaluate(y)))})
        # one Hardness object evaluates this instance, then ANOTHER instance with the same name (every generated
        # candidate of a template carries the same name), then this one again: must equal a fresh object's value
        x2 = [rng.uniform(-1, 1) for _ in range(len(x))]
        yb: list = []
        guarded_decode(dec, np.array(x2, dtype=np.float64), yb)
        hh = Hardness(max_fes=24, n_runs=2)
        hh.evaluate(y)
        vb = float(hh.evaluate(yb))
        va = float(hh.evaluate(y))
        rec["objs"].append({"name": "hardness-history", "v": f64(va),
                            "v2": f64(float(Hardness(max_fes=24, n_runs=2).evaluate(y)))})
        rec["objs"].append({"name": "hardness-history", "v": f64(vb),
                            "v2": f64(float(Hardness(max_fes=24, n_runs=2).evaluate(yb)))})
        # ... and across a change of NAME: generated instance (name of the template + suffix), template, template
        # again; and template, generated, generated - the second evaluation of a name must equal a fresh object's
        hn = Hardness(max_fes=24, n_runs=2)
        hn.evaluate(y)
        hn.evaluate(tmpl)
        vt = float(hn.evaluate(tmpl))
        rec["objs"].append({"name": "hardness-history", "v": f64(vt), "order": "generated, template, template",
                            "v2": f64(float(Hardness(max_fes=24, n_runs=2).evaluate(tmpl)))})
        hn = Hardness(max_fes=24, n_runs=2)
        hn.evaluate(tmpl)
        hn.evaluate(y)
        vg = float(hn.evaluate(y))
        rec["objs"].append({"name": "hardness-history", "v": f64(vg), "order": "template, generated, generated",
                            "v2": f64(float(Hardness(max_fes=24, n_runs=2).evaluate(y)))})
        # the executors may be handed over as any iterable (the parameter is declared Iterable): a one-shot iterator
        # must not make the second evaluation differ from the first
        from moptipyapps.binpacking2d.instgen.hardness import DEFAULT_EXECUTORS
        hi = Hardness(max_fes=16, n_runs=1, executors=iter(DEFAULT_EXECUTORS))
        v1 = float(hi.evaluate(y))
        try:
            v2 = float(hi.evaluate(y))
        except (ZeroDivisionError, ValueError):
            v2 = float("nan")
        rec["objs"].append({"name": "hardness", "v": f64(v1), "v2": f64(v2), "executors": "one-shot iterator"})
        eh = EH(space, max_fes=16, n_runs=1)
        rec["objs"].append({"name": "errors-and-hardness", "v": f64(float(eh.evaluate(y))),
                            "v2": f64(float(eh.evaluate(y)))})
    return rec


def special_values(rng: random.Random) -> float:
    one = 1.0
    return rng.choice([-1.0, 1.0, 0.0, -0.0, float(np.nextafter(one, 0)), float(np.nextafter(-one, 0)),
                       float(np.nextafter(0.0, 1)), float(np.nextafter(0.0, -1)), 0.5, -0.5,
                       rng.uniform(-1, 1)])


def run(prop: str, tier: str, seed: int) -> int:
    rep = Report(prop, tier, seed)
    rng = random.Random(seed * 32416190071 + 17)
    consts = {"quick": (3, 2, 4, 2), "thorough": (3, 2, 5, 3)}[tier]
    res = tlc.run("instgen/MC_InstDecoder", cfg_text="SPECIFICATION Spec\nCONSTANTS MaxSide = %d\n MaxK = %d\n MaxN = %d\n"
                  " MaxTrims = %d\nINVARIANT Witness\nINVARIANT AreaTracked\nINVARIANT KBins\nINVARIANT CountOK\n" % consts,
                  workers=16, timeout=1500)
    rep.add_mc(f"MC_InstDecoder (MaxSide, MaxK, MaxN, MaxTrims) = {consts}", res)

    from moptipyapps.binpacking2d.instance import Instance
    cases = []
    n_c = {"quick": 260, "thorough": 2500}[tier]
    shipped = ["a04", "a10", "beng03", "cl01_020_01", "cl02_020_03", "cl09_020_04", "cl03_020_02"]
    for k in range(n_c):
        u = rng.random()
        tmpl = None
        if u < 0.65:
            # synthetic template from a guillotine dissection: its lower bound is the true bin need
            from .c03 import guillotine
            W, H, items, _rows, kk = guillotine(rng, rng.choice([3, 4, 6, 9]), rng.choice([1, 1, 2, 3]),
                                                rng.randint(1, 6))
            try:
                tmpl = bp.make_instance(W, H, items, name=f"t{k}")
            except ValueError:
                continue
        else:
            tmpl = Instance.from_resource(rng.choice(shipped))
        if tmpl.n_items <= tmpl.lower_bound_bins:
            continue
        try:
            _mods()[1](tmpl)
        except ValueError:
            continue      # InstanceSpace admits only templates whose items fit the bin as given
        base = 2 * (tmpl.n_items - min(tmpl.lower_bound_bins, tmpl.n_items))
        slack_pairs = rng.choice([0, 0, 1, 2, 3, 5, 8])
        style = rng.random()
        d = base + 2 * slack_pairs
        if style < 0.4:
            x = [rng.uniform(-1, 1) for _ in range(d)]
        elif style < 0.55:
            x = [rng.choice([-1.0, 0.0, 1.0]) for _ in range(d)]
        elif style < 0.7:
            v = rng.choice([-1.0, 0.0, 1.0])
            x = [v] * d
        else:
            x = [special_values(rng) for _ in range(d)]
        try:
            cases.append(decode_case(f"dec-{k}", tmpl, x, with_objs=(k % 12 == 0), rng=rng))
        except (IndexError, ZeroDivisionError) as ex:
            rep.violations.append(core.Verdict(f"dec-{k}", f"decoder-raises:{type(ex).__name__}",
                                               {"template": tmpl.to_compact_str(), "x": x, "error": str(ex)[:100]}))
            continue
        except DecodeTimeout:
            rep.violations.append(core.Verdict(f"dec-{k}", "decode-does-not-terminate",
                                               {"template": tmpl.to_compact_str(), "x": x,
                                                "guard": "300 s (30 s / 5 s after earlier timeouts)"}))
            continue
        nt = 1 if cases[-1]["events"] and any(e["ph"] == 2 for e in cases[-1]["events"]) else 0
        rep.family("decoded-vectors", 1, nt)
        rep.nontrivial += nt
    vs = core.validate("instgen/Trace_InstGen", cases, shards=14)
    core.classify(rep, vs, {c["id"]: c for c in cases}, family="recorded")
    rep.traces += len(cases)
    rep.evaluations = rep.traces
    rep.transitions += sum(len(c["events"]) for c in cases)
    s = next((c for c in cases if any(e["ph"] == 2 for e in c["events"])), cases[0])
    rep.samples.append({k: s[k] for k in ("t", "x", "events", "res", "again")})
    rep.rule = ("templates: guillotine-built synthetic ones (bins <= 9x9, 1..3 bins) and shipped instances; vectors: "
                "uniform random, all in {-1,0,1}, constant, float neighbours of -1/0/1, with 0..8 slack pairs. Every "
                "recorded cut is replayed through the TLA+ cut machine. non-trivial = decodes with at least one "
                "phase-2 (slack) cut, counted.")
    rep.assumptions = ["hook events (phase, item, dimension, position) are emitted right after each cut"]
    return core.finish(rep)


def replay(prop: str, case: dict) -> dict:
    """Re-validate the recorded case against the specification (the record holds the input and what the real code
    returned for it; re-executing the code on exactly this input is what re-running the check with the same seed does)."""
    rec = dict(case)
    rec["id"] = "replay"
    vs = core.validate("instgen/Trace_InstGen", [rec])
    return {"clause": vs["replay"], "case": rec, "mode": "revalidated-recorded-case"}
