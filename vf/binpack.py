"""Drivers for the 2D bin packing subsystem: build instances, run the real decoders,
objectives and validator, and project what they did into trace records for TLC."""
from __future__ import annotations

import random

import numpy as np

from .core import MachineryError, small

_ENC = {}


def _mods():
    if not _ENC:
        from moptipyapps.binpacking2d.encodings.ibl_encoding_1 import (
            ImprovedBottomLeftEncoding1,
        )
        from moptipyapps.binpacking2d.encodings.ibl_encoding_2 import (
            ImprovedBottomLeftEncoding2,
        )
        from moptipyapps.binpacking2d.instance import Instance
        from moptipyapps.binpacking2d.packing import Packing
        _ENC.update({1: ImprovedBottomLeftEncoding1, 2: ImprovedBottomLeftEncoding2,
                     "Instance": Instance, "Packing": Packing})
    return _ENC


class _SlowConstructor(Exception):
    pass


def _alarm(_s, _f):
    raise _SlowConstructor


def make_instance(W: int, H: int, items: list, name: str = "v"):
    """Build a real Instance.  The constructor's lower-bound routine is O(short bin side x squares); for very
    large bins it is guarded by a wall clock and the instance is skipped (ValueError) if it takes more than 120 s -
    a slow constructor must neither hang a check nor be mistaken for a verdict."""
    import signal
    big_bin = max(int(W), int(H)) > 100_000
    if big_bin:
        old = signal.signal(signal.SIGALRM, _alarm)
        signal.alarm(120)
    try:
        return _mods()["Instance"](name, int(W), int(H), [list(map(int, t)) for t in items])
    except _SlowConstructor:
        raise ValueError(f"instance constructor took more than 120 s for a {W}x{H} bin: skipped") from None
    finally:
        if big_bin:
            signal.alarm(0)
            signal.signal(signal.SIGALRM, old)


def inst_record(inst) -> dict:
    return {"W": small(inst.bin_width), "H": small(inst.bin_height),
            "items": [[small(inst[i, 0]), small(inst[i, 1]), small(inst[i, 2])]
                      for i in range(inst.n_different_items)],
            "dtype": str(inst.dtype)}


def random_perm(inst, rng: random.Random, signs: str = "random") -> list:
    base = []
    for i in range(inst.n_different_items):
        base.extend([i + 1] * int(inst[i, 2]))
    rng.shuffle(base)
    if signs == "random":
        return [v if rng.random() < 0.5 else -v for v in base]
    if signs == "neg":
        return [-v for v in base]
    return base


def result_record(inst, rows: list, nb: int):
    """The PackingResult that the library derives for a packing (from_packing_and_end_result with every optional
    argument left at its default, as a caller evaluating packings one after the other would do).  The instance
    names of the drivers repeat on purpose: whatever the function remembers between calls must not leak from
    one instance into the record of another."""
    from moptipy.evaluation.end_results import EndResult
    from moptipyapps.binpacking2d import packing_result as pr
    from moptipyapps.binpacking2d.objectives.bin_count import BIN_COUNT_NAME
    y = _mods()["Packing"](inst)
    y[:, :] = np.array(rows, dtype=np.int64).reshape(y.shape)
    y.n_bins = int(nb)
    er = EndResult("a", inst.name, BIN_COUNT_NAME, None, 1, int(nb), 1, 0, 1, 0, None, None, None)
    return pr.from_packing_and_end_result(er, y)


def rows_of(y) -> list:
    return [[small(v) for v in row] for row in np.asarray(y).tolist()]


class Decoders:
    """One encoder object of each kind and one destination packing per kind, reused."""

    def __init__(self, inst) -> None:
        m = _mods()
        self.inst = inst
        self.enc = {1: m[1](inst), 2: m[2](inst)}
        self.dst = {1: m["Packing"](inst), 2: m["Packing"](inst)}
        for d in self.dst.values():
            d.fill(0)
            d.n_bins = 0

    def dirty(self, rng: random.Random, e: int) -> None:
        d = self.dst[e]
        info = np.iinfo(d.dtype)
        hi = min(int(info.max), 1000)
        d[:, :] = np.array([[rng.randint(-3, hi) for _ in range(6)]
                            for _ in range(d.shape[0])], dtype=d.dtype)
        d.n_bins = rng.randint(-1, 99)

    def decode(self, e: int, x: list) -> dict:
        xa = np.array(x, dtype=self.inst.dtype if self.inst.dtype.kind == "i" else np.int64)
        y = self.dst[e]
        self.enc[e].decode(xa, y)
        return {"enc": e, "x": [small(v) for v in x], "rows": rows_of(y),
                "nb": small(int(y.n_bins))}


def decode_fresh(inst, e: int, x: list) -> dict:
    m = _mods()
    y = m["Packing"](inst)
    y.fill(0)
    y.n_bins = 0
    xa = np.array(x, dtype=np.int64)
    m[e](inst).decode(xa, y)
    return {"enc": e, "x": [small(v) for v in x], "rows": rows_of(y), "nb": small(int(y.n_bins))}


# ------------------------------------------------------------------ instance families
def fam_random(rng: random.Random, max_side: int, max_types: int, max_rep: int, max_n: int):
    W = rng.randint(1, max_side)
    H = rng.randint(1, max_side)
    items = []
    n = 0
    for _ in range(rng.randint(1, max_types)):
        while True:
            w = rng.randint(1, max(W, H))
            h = rng.randint(1, max(W, H))
            if (w <= W and h <= H) or (h <= W and w <= H):
                break
        r = rng.randint(1, max_rep)
        if n + r > max_n:
            r = max_n - n
        if r <= 0:
            break
        n += r
        items.append([w, h, r])
    return W, H, items


def fam_dense(rng: random.Random):
    """Small bins, many small items of mixed shapes: overhangs, slides under ledges, and
    several open bins are frequent (the situations in which the placement rule's tie
    handling matters)."""
    lo, hi, nlo, nhi, div = rng.choice([(4, 12, 5, 14, 2), (4, 8, 8, 16, 2), (5, 10, 8, 16, 3),
                                        (6, 12, 10, 20, 3)])
    W, H = rng.randint(lo, hi), rng.randint(lo, hi)
    items = []
    n = 0
    target = rng.randint(nlo, nhi)
    while n < target:
        w, h = rng.randint(1, max(1, W // div + 1)), rng.randint(1, max(1, H // div + 1))
        r = min(rng.randint(1, 3), target - n)
        items.append([w, h, r])
        n += r
    return W, H, items


def fam_degenerate(rng: random.Random):
    """Boundary instances the suite never builds."""
    k = rng.randint(0, 7)
    if k == 0:      # 1x1 bin
        return 1, 1, [[1, 1, rng.randint(1, 6)]]
    if k == 1:      # item as large as the bin (+ filler)
        W, H = rng.randint(1, 9), rng.randint(1, 9)
        return W, H, [[W, H, rng.randint(1, 3)], [1, 1, rng.randint(1, 3)]]
    if k == 2:      # fits only when rotated
        W = rng.randint(2, 12)
        H = rng.randint(1, W - 1)
        w = rng.randint(1, H)
        h = rng.randint(H + 1, W)
        return W, H, [[w, h, rng.randint(1, 4)], [rng.randint(1, W), rng.randint(1, H), 2]]
    if k == 3:      # all identical
        W, H = rng.randint(2, 12), rng.randint(2, 12)
        return W, H, [[rng.randint(1, min(W, H)), rng.randint(1, min(W, H)), rng.randint(2, 9)]]
    if k == 4:      # every item needs its own bin
        W, H = rng.randint(2, 10), rng.randint(2, 10)
        return W, H, [[W // 2 + 1, H // 2 + 1, rng.randint(2, 6)],
                      [W, H // 2 + 1, rng.randint(1, 3)]]
    if k == 5:      # strips
        W, H = rng.randint(3, 15), rng.randint(3, 15)
        return W, H, [[1, H, rng.randint(1, 5)], [W, 1, rng.randint(1, 5)],
                      [1, 1, rng.randint(1, 4)]]
    if k == 6:      # one-row / one-column bins
        if rng.random() < 0.5:
            W = rng.randint(2, 20)
            return W, 1, [[rng.randint(1, W), 1, rng.randint(1, 4)], [1, rng.randint(1, W), 2]]
        H = rng.randint(2, 20)
        return 1, H, [[1, rng.randint(1, H), rng.randint(1, 4)], [rng.randint(1, H), 1, 2]]
    W, H = rng.randint(4, 16), rng.randint(4, 16)   # staircase-prone mix
    return W, H, [[W // 2, H // 3 + 1, 3], [W // 3 + 1, H // 2, 3], [1, 2, 2], [2, 1, 2]]


_EDGES = {"int8": 127, "int16": 32767, "int32": 2 ** 31 - 1}


def fam_storage_edge(rng: random.Random):
    """max(maxdim + maxsize + 1, n_items + 1) in {Max-1, Max, Max+1} of a storage type.

    The instance constructor's lower-bound routine loops over min(W, H) / 2 values of q
    and cuts every item into (long side / short side) squares, so for the int16 and int32
    edges the short bin side is kept small and the long items are thin; otherwise
    constructing the instance would not terminate in reasonable time.
    """
    which = rng.choice(["int8", "int8", "int16", "int32", "n8"])
    delta = rng.choice([-1, 0, 0, 1, 2, 3, rng.randint(-4, 12)])
    if which == "n8":
        n = 127 + delta - 1            # n_items + 1 = 127 + delta
        W, H = rng.randint(2, 9), rng.randint(2, 9)
        a = rng.randint(1, n - 1)
        return W, H, [[rng.randint(1, W), rng.randint(1, H), a],
                      [rng.randint(1, W), rng.randint(1, H), n - a]]
    if which == "int32":
        delta = min(delta, 1)          # TLC's integers end at 2^31 - 1 (= maxdim + maxsize then)
    target = _EDGES[which] + delta     # maxdim + maxsize + 1 = target
    tot = target - 1                   # maxdim + maxsize
    maxsize = rng.choice([tot // 2, tot // 2 - 1, max(1, tot // 3), max(1, tot // 5)])
    maxdim = tot - maxsize
    if which == "int8":
        other = rng.choice([maxdim, max(1, maxdim // 2), rng.randint(1, maxdim)])
        thin = rng.randint(1, other)
    else:
        other = rng.randint(1, 30)
        thin = 1 if which == "int32" else rng.randint(1, other)
    W, H = (maxdim, other) if rng.random() < 0.5 else (other, maxdim)
    big = [maxsize, thin] if rng.random() < 0.5 else [thin, maxsize]
    items = [big + [rng.randint(1, 2)]]
    for _ in range(rng.randint(0, 3)):
        if rng.random() < 0.5:
            lw = rng.randint(1, maxsize)
            it = [lw, 1] if rng.random() < 0.5 else [1, lw]
        else:
            it = [rng.randint(1, min(other, maxsize)), rng.randint(1, min(other, maxsize))]
        items.append(it + [rng.randint(1, 2)])
    return W, H, items


_RES = []


def fam_shipped(rng: random.Random, max_items: int = 60):
    if not _RES:
        from moptipyapps.binpacking2d.instance import Instance
        _RES.extend(Instance.list_resources())
    from moptipyapps.binpacking2d.instance import Instance
    for _ in range(50):
        nm = rng.choice(_RES)
        inst = Instance.from_resource(nm)
        if inst.n_items <= max_items:
            return inst
    raise MachineryError("no small shipped instance found")


def nontrivial_packing(rec_step: dict, inst_rec: dict) -> bool:
    """>= 2 bins and at least one rotated placement (forced or requested)."""
    if rec_step["nb"] < 2:
        return False
    for r in rec_step["rows"]:
        w, h, _ = inst_rec["items"][r[0] - 1] if 1 <= r[0] <= len(inst_rec["items"]) else (0, 0, 0)
        if (r[4] - r[2], r[5] - r[3]) == (h, w) and w != h:
            return True
    return False
