------------------------------ MODULE Similarity ------------------------------
(***************************************************************************)
(* The similarity ("errors") objective of the instance generator           *)
(* (moptipyapps/binpacking2d/instgen/errors.py) as the sum its module      *)
(* documentation describes, on integers:                                   *)
(*  1. the difference between the numbers of different item sizes,        *)
(*  2. for every item COPY and each dimension, how far it lies outside     *)
(*     the template's range [min, max] of that dimension,                  *)
(*  3. the differences of the actual minimum / maximum width / height to   *)
(*     the template's,                                                     *)
(*  4. the difference of the total item areas,                             *)
(* divided by the largest possible such sum (MaxErrors) and clamped to     *)
(* [0, 1].  tmpl and inst are sequences of <<width, height, copies>>; the  *)
(* bin is W x H and the template needs k bins.                             *)
(***************************************************************************)
EXTENDS Naturals, Integers, Sequences, FiniteSets

LOCAL Mx(a, b) == IF a >= b THEN a ELSE b
LOCAL AbsD(a, b) == IF a >= b THEN a - b ELSE b - a
LOCAL SMin(S) == CHOOSE m \in S : \A o \in S : m <= o
LOCAL SMax(S) == CHOOSE m \in S : \A o \in S : m >= o
RECURSIVE SumOver(_, _)
SumOver(f, i) == IF i > Len(f) THEN 0 ELSE f[i] + SumOver(f, i + 1)

Widths(s) == {s[i][1] : i \in 1..Len(s)}
Heights(s) == {s[i][2] : i \in 1..Len(s)}
Copies(s) == SumOver([i \in 1..Len(s) |-> s[i][3]], 1)
Area(s) == SumOver([i \in 1..Len(s) |-> s[i][1] * s[i][2] * s[i][3]], 1)
Outside(v, lo, hi) == IF v < lo THEN lo - v ELSE IF v > hi THEN v - hi ELSE 0

ErrorCount(tmpl, inst) ==
  LET wlo == SMin(Widths(tmpl)) whi == SMax(Widths(tmpl))
      hlo == SMin(Heights(tmpl)) hhi == SMax(Heights(tmpl)) IN
  AbsD(Len(inst), Len(tmpl))
  + SumOver([i \in 1..Len(inst) |-> inst[i][3] * (Outside(inst[i][1], wlo, whi) + Outside(inst[i][2], hlo, hhi))], 1)
  + AbsD(SMin(Widths(inst)), wlo) + AbsD(SMax(Widths(inst)), whi)
  + AbsD(SMin(Heights(inst)), hlo) + AbsD(SMax(Heights(inst)), hhi)
  + AbsD(Area(inst), Area(tmpl))

MaxErrors(tmpl, W, H, k) ==
  LET wlo == SMin(Widths(tmpl)) whi == SMax(Widths(tmpl))
      hlo == SMin(Heights(tmpl)) hhi == SMax(Heights(tmpl))
      n == Copies(tmpl) nd == Len(tmpl) IN
  Mx(nd - 1, n - nd - 1)
  + n * Mx(wlo - 1, W - whi) + n * Mx(hlo - 1, H - hhi)
  + Mx(wlo, W - wlo) + Mx(whi, W - whi) + Mx(hlo, H - hlo) + Mx(hhi, H - hhi)
  + Mx(Area(tmpl), k * W * H - Area(tmpl))

\* the template itself has no errors
TemplateIsZero(tmpl) == ErrorCount(tmpl, tmpl) = 0
=============================================================================
