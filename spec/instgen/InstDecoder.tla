------------------------------ MODULE InstDecoder ------------------------------
(***************************************************************************)
(* The instance decoder of the instance-generation package as a cut        *)
(* machine with a geometric witness.  A template is [W, H, k, n]: bin      *)
(* size, minimum number of bins, number of items.  The machine starts with *)
(* k bin-sized items, each lying in its own bin; every item carries the    *)
(* region <<bin, x, y, w, h>> it occupies.                                 *)
(*   Cut(i, dim, pos)  (phase 1): item i is split at `pos` along dimension *)
(*        dim (0 = width, 1 = height); the new item takes the remainder.   *)
(*   Trim(i, dim, pos) (phase 2): `pos` units are cut off item i along dim *)
(*        and thrown away - allowed only while the total area stays at or  *)
(*        above (k-1)*W*H + 1.                                             *)
(* Whatever cuts are chosen, the regions are a feasible packing into k     *)
(* bins and the area still needs k bins.                                   *)
(***************************************************************************)
EXTENDS Naturals, Integers, Sequences, FiniteSets

RBin(r) == r[1]
SizeIn(r, dim) == IF dim = 0 THEN r[4] ELSE r[5]
OtherSize(r, dim) == IF dim = 0 THEN r[5] ELSE r[4]
AreaOf(r) == r[4] * r[5]
RECURSIVE SumAreas(_, _)
SumAreas(items, i) == IF i > Len(items) THEN 0 ELSE AreaOf(items[i]) + SumAreas(items, i + 1)

StartItems(t) == [b \in 1..t.k |-> <<b, 0, 0, t.W, t.H>>]
MinArea(t) == (t.k - 1) * t.W * t.H + 1

CutLegal(items, i, dim, pos) == i \in 1..Len(items) /\ dim \in {0, 1} /\ 0 < pos /\ pos < SizeIn(items[i], dim)
DoCut(items, i, dim, pos) ==
  LET r == items[i]
      keep == IF dim = 0 THEN <<r[1], r[2], r[3], pos, r[5]>> ELSE <<r[1], r[2], r[3], r[4], pos>>
      rest == IF dim = 0 THEN <<r[1], r[2] + pos, r[3], r[4] - pos, r[5]>>
              ELSE <<r[1], r[2], r[3] + pos, r[4], r[5] - pos>>
  IN Append([items EXCEPT ![i] = keep], rest)

\* `area` is the current total item area
TrimLegal(t, items, area, i, dim, pos) ==
  /\ CutLegal(items, i, dim, pos)
  /\ area - pos * OtherSize(items[i], dim) >= MinArea(t)
DoTrim(items, i, dim, pos) ==
  LET r == items[i] IN
  [items EXCEPT ![i] = IF dim = 0 THEN <<r[1], r[2], r[3], r[4] - pos, r[5]>>
                       ELSE <<r[1], r[2], r[3], r[4], r[5] - pos>>]

\* ---- what must hold of the item list at any time
Disjoint(a, b) == RBin(a) # RBin(b) \/ a[2] + a[4] <= b[2] \/ b[2] + b[4] <= a[2]
                  \/ a[3] + a[5] <= b[3] \/ b[3] + b[5] <= a[3]
WitnessOK(t, items) ==
  /\ \A i \in 1..Len(items) : LET r == items[i] IN
        /\ RBin(r) \in 1..t.k /\ r[4] >= 1 /\ r[5] >= 1
        /\ r[2] >= 0 /\ r[3] >= 0 /\ r[2] + r[4] <= t.W /\ r[3] + r[5] <= t.H
  /\ \A i \in 1..Len(items) : \A j \in (i + 1)..Len(items) : Disjoint(items[i], items[j])
NeedsKBins(t, area) == (t.k - 1) * t.W * t.H < area /\ area <= t.k * t.W * t.H

\* the multiset of item shapes <<w, h>> as a function shape -> count
ShapeBag(items) ==
  LET S == {<<items[i][4], items[i][5]>> : i \in 1..Len(items)} IN
  [s \in S |-> Cardinality({i \in 1..Len(items) : <<items[i][4], items[i][5]>> = s})]
=============================================================================
