------------------------------- MODULE Trace_Sim -------------------------------
(***************************************************************************)
(* The logged best value of an instance-generation run (C12) against an    *)
(* independent re-evaluation of the logged instance: the combined          *)
(* objective is (1000 * hardness + similarity) / 1001, where the           *)
(* similarity is the documented deviation sum of Similarity.tla (recomputed*)
(* here from the template and the logged instance) and the hardness is     *)
(* what a fresh Hardness object returns for the logged instance.           *)
(* case: [t: [W, H, k, titems], items, best, hard]  best / hard: dyadic    *)
(* numbers (scale 2^60)                                                    *)
(***************************************************************************)
EXTENDS Dyadic, TraceIO, Naturals, Sequences
VARIABLE tid
Sim == INSTANCE Similarity

Verdict(c) ==
  LET cnt == Sim!ErrorCount(c.t.titems, c.items)
      mx == Sim!MaxErrors(c.t.titems, c.t.W, c.t.H, c.t.k)
      want == IF cnt > mx THEN mx ELSE cnt
      \* best * 1001 * mx  against  1000 * hard * mx + want     (all at scale 2^60)
      lhs == DMulInt(DMulInt(c.best, 1001), mx)
      rhs == DAdd(DMulInt(DMulInt(c.hard, 1000), mx), DInt(want))
  IN (IF mx <= 0 THEN {"driver-similarity-max-errors"}
      ELSE IF BLe(BMul(DAbs(DSub(lhs, rhs)), P40), BAdd(DAbs(rhs), <<1>>)) THEN {}
      ELSE {"logged-best-not-(1000*hardness+documented-similarity)/1001"})
     \* the independent feasibility check of a generated instance: as many items as the template, every item fits
     \* the bin, and the total area still needs the template's k bins
     \cup (IF Sim!Copies(c.items) # Sim!Copies(c.t.titems) THEN {"final-instance:item-count"} ELSE {})
     \cup (IF \E i \in 1..Len(c.items) : ~(c.items[i][1] >= 1 /\ c.items[i][2] >= 1 /\ c.items[i][3] >= 1
                                            /\ ((c.items[i][1] <= c.t.W /\ c.items[i][2] <= c.t.H)
                                                \/ (c.items[i][2] <= c.t.W /\ c.items[i][1] <= c.t.H)))
           THEN {"final-instance:item-does-not-fit-the-bin"} ELSE {})
     \cup (IF Sim!Area(c.items) <= (c.t.k - 1) * c.t.W * c.t.H \/ Sim!Area(c.items) > c.t.k * c.t.W * c.t.H
           THEN {"final-instance:area-does-not-need-the-templates-bins"} ELSE {})

Init == tid = 0
Next == /\ tid < NCases /\ tid' = tid + 1
        /\ PrintT(<<"V", Cases[tid'].id, Verdict(Cases[tid'])>>)
Spec == Init /\ [][Next]_tid
=============================================================================
