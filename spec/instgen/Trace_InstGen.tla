---------------------------- MODULE Trace_InstGen ----------------------------
(***************************************************************************)
(* Validation of recorded runs of the real instance decoder (C17).         *)
(* A case:  [t: [W,H,k,n,name], events: <<[ph,i,dim,pos]>>,                *)
(*           res: [name, W, H, n_items, area, lb, items: <<<<w,h,rep>>>>], *)
(*           again: 0/1  (second decoding of the same vector identical),   *)
(*           reuse: 0/1  (another vector decoded into the used receiver     *)
(*                        delivers that other vector's instance),           *)
(*           objs: <<[name, v: F64, v2: F64]>> objective values (twice)]   *)
(* The hook events are replayed through the cut machine of InstDecoder:    *)
(* every event must be a legal Cut (phase 1) or Trim (phase 2); the final  *)
(* machine state must be the produced instance (as a multiset of shapes).  *)
(***************************************************************************)
EXTENDS InstDecoder, F64, Dyadic, TraceIO
VARIABLE tid

\* fold the events; state = [items, area, bad]
RECURSIVE Run(_, _, _, _)
Run(t, evs, i, st) ==
  IF i > Len(evs) \/ st.bad # "ok" THEN st
  ELSE LET e == evs[i] idx == e.i + 1 IN
    IF e.ph = 1 THEN
      (IF Len(st.items) >= t.n THEN [st EXCEPT !.bad = "more-cuts-than-items"]
       ELSE IF ~CutLegal(st.items, idx, e.dim, e.pos) THEN [st EXCEPT !.bad = "illegal-cut"]
       ELSE Run(t, evs, i + 1, [st EXCEPT !.items = DoCut(st.items, idx, e.dim, e.pos)]))
    ELSE
      (IF Len(st.items) # t.n THEN [st EXCEPT !.bad = "trim-before-all-cuts"]
       ELSE IF ~CutLegal(st.items, idx, e.dim, e.pos) THEN [st EXCEPT !.bad = "illegal-trim"]
       ELSE IF ~TrimLegal(t, st.items, st.area, idx, e.dim, e.pos)
            THEN [st EXCEPT !.bad = "trim-exceeds-removable-area"]
       ELSE Run(t, evs, i + 1, [items |-> DoTrim(st.items, idx, e.dim, e.pos),
                                area |-> st.area - e.pos * OtherSize(st.items[idx], e.dim),
                                bad |-> "ok"]))

ResBag(res) ==
  LET S == {<<res.items[i][1], res.items[i][2]>> : i \in 1..Len(res.items)} IN
  [s \in S |-> LET I == {i \in 1..Len(res.items) : <<res.items[i][1], res.items[i][2]>> = s} IN
               \* a shape may be listed once only (equal items are merged)
               IF Cardinality(I) = 1 THEN res.items[CHOOSE i \in I : TRUE][3] ELSE -1]
ResArea(res) == LET f[i \in 0..Len(res.items)] ==
                      IF i = 0 THEN 0 ELSE f[i - 1] + res.items[i][1] * res.items[i][2] * res.items[i][3]
                IN f[Len(res.items)]
ResCount(res) == LET f[i \in 0..Len(res.items)] == IF i = 0 THEN 0 ELSE f[i - 1] + res.items[i][3]
                 IN f[Len(res.items)]

Sim == INSTANCE Similarity
\* the similarity value (an exact dyadic number vd, scale 2^60) against the documented sum: value * MaxErrors must
\* be the error count (clamped at MaxErrors) up to the rounding of one float division (relative 2^-40)
SimClause(c, o) ==
  IF ~("vd" \in DOMAIN o /\ "titems" \in DOMAIN c.t) THEN {}
  ELSE LET cnt == Sim!ErrorCount(c.t.titems, c.res.items)
           mx == Sim!MaxErrors(c.t.titems, c.t.W, c.t.H, c.t.k)
           want == IF cnt > mx THEN mx ELSE cnt
           lhs == DMulInt(o.vd, mx)           \* value * MaxErrors, scale 2^60
           rhs == DInt(want)
       IN IF mx <= 0 THEN {"driver-similarity-max-errors"}
          ELSE IF BLe(BMul(DAbs(DSub(lhs, rhs)), P40), BAdd(DAbs(rhs), <<1>>)) THEN {}
          ELSE {"similarity-not-the-documented-deviation-sum"}
ObjClauses(c) ==
  UNION {LET o == c.objs[k] IN
         (IF o.name = "errors" THEN SimClause(c, o) ELSE {}) \cup
         (IF ~FInClosed(o.v, FZero, FOne) THEN {"objective-outside-[0,1]:" \o o.name} ELSE {})
         \cup (IF o.name = "hardness" /\ ~FSame(o.v, o.v2) THEN {"hardness-not-repeatable"} ELSE {})
         \cup (IF o.name = "hardness-history" /\ ~FSame(o.v, o.v2) THEN {"hardness-depends-on-evaluation-history"} ELSE {})
         \cup (IF o.name = "errors-of-template" /\ ~FIsZero(o.v) THEN {"errors-of-template-not-0"} ELSE {})
         : k \in 1..Len(c.objs)}

Verdict(c) ==
  LET t == c.t
      st == Run(t, c.events, 1, [items |-> StartItems(t), area |-> t.k * t.W * t.H, bad |-> "ok"])
      res == c.res
  IN (IF st.bad # "ok" THEN {st.bad} ELSE {})
     \cup (IF st.bad = "ok" /\ ~WitnessOK(t, st.items) THEN {"witness-not-feasible"} ELSE {})
     \cup (IF st.bad = "ok" /\ ShapeBag(st.items) # ResBag(res) THEN {"instance-not-machine-state"} ELSE {})
     \cup (IF res.name # t.name THEN {"name"} ELSE {})
     \cup (IF res.W # t.W \/ res.H # t.H THEN {"bin-size"} ELSE {})
     \cup (IF res.n_items # t.n \/ ResCount(res) # t.n THEN {"item-count"} ELSE {})
     \cup (IF res.area # ResArea(res) THEN {"reported-area"} ELSE {})
     \cup (IF ~NeedsKBins(t, ResArea(res)) THEN {"area-does-not-need-min-bins"} ELSE {})
     \cup (IF res.lb # t.k THEN {"lower-bound-not-min-bins"} ELSE {})
     \cup (IF \E i \in 1..Len(res.items) : res.items[i][1] < 1 \/ res.items[i][2] < 1 \/ res.items[i][3] < 1
           THEN {"item-side-not-positive"} ELSE {})
     \cup (IF c.again # 1 THEN {"second-decoding-differs"} ELSE {})
     \cup (IF "reuse" \in DOMAIN c /\ c.reuse # 1 THEN {"reused-receiver-holds-another-vectors-instance"} ELSE {})
     \cup (IF c.space_min_bins # t.k THEN {"space-min-bins-not-template-bin-need"} ELSE {})
     \cup ObjClauses(c)

Init == tid = 0
Next == /\ tid < NCases /\ tid' = tid + 1
        /\ PrintT(<<"V", Cases[tid'].id, Verdict(Cases[tid'])>>)
Spec == Init /\ [][Next]_tid
=============================================================================
