---------------------------- MODULE MC_InstDecoder ----------------------------
(* All cut sequences for all small templates: every reachable item list is a feasible packing  *)
(* into k bins, has at most n items, positive sides, and an area that still needs k bins.       *)
EXTENDS InstDecoder, TLC
CONSTANTS MaxSide, MaxK, MaxN, MaxTrims
VARIABLES t, items, area, phase, trims
vars == <<t, items, area, phase, trims>>
Templates == {[W |-> w, H |-> h, k |-> k, n |-> n] :
                w \in 1..MaxSide, h \in 1..MaxSide, k \in 1..MaxK, n \in 1..MaxN}
Init == /\ t \in {x \in Templates : x.n >= x.k /\ x.n <= x.k * x.W * x.H}
        /\ items = StartItems(t) /\ area = t.k * t.W * t.H /\ phase = 1 /\ trims = 0
Cut == /\ phase = 1 /\ Len(items) < t.n
       /\ \E i \in 1..Len(items) : \E dim \in {0, 1} : \E pos \in 1..(MaxSide - 1) :
            /\ CutLegal(items, i, dim, pos) /\ items' = DoCut(items, i, dim, pos)
       /\ UNCHANGED <<t, area, phase, trims>>
EndPhase1 == phase = 1 /\ Len(items) = t.n /\ phase' = 2 /\ UNCHANGED <<t, items, area, trims>>
Trim == /\ phase = 2 /\ trims < MaxTrims
        /\ \E i \in 1..Len(items) : \E dim \in {0, 1} : \E pos \in 1..(MaxSide - 1) :
             /\ TrimLegal(t, items, area, i, dim, pos)
             /\ items' = DoTrim(items, i, dim, pos)
             /\ area' = area - pos * OtherSize(items[i], dim)
        /\ trims' = trims + 1 /\ UNCHANGED <<t, phase>>
Next == Cut \/ EndPhase1 \/ Trim
Spec == Init /\ [][Next]_vars
Witness == WitnessOK(t, items)
AreaTracked == area = SumAreas(items, 1)
KBins == NeedsKBins(t, area)
CountOK == Len(items) <= t.n /\ (phase = 2 => Len(items) = t.n)
=============================================================================
