------------------------------- MODULE Trace_Ctrl -------------------------------
(***************************************************************************)
(* Recorded controller / system evaluations (C16).  Case kinds:            *)
(*  "poly"  : [d, deg, states, probes, combos: <<[s, p, out]>>]            *)
(*  "plin"  : [evals: <<[anchors, laws, s, out]>>]                         *)
(*  "peaks" : [evals: <<[mults, biases, ws, s, out]>>]                     *)
(*  "ann"   : [nin, layers, nout, pdims, neurons, outs, zero_ok]           *)
(*  "range" : [name, vals: <<F64>>, lo, hi]     (minimising networks)      *)
(*  "anncache": [hits: <<[nin, nout, layers, same, sd, cd, pd]>>]           *)
(*  "lorenz": [evals: <<[x, y, z, c, out]>>]    integer states             *)
(*  "axes"  : [name, evals: <<[expect, out]>>]  exact axis evaluations     *)
(*  every case: unchanged = 1 if no input array was modified by the call   *)
(***************************************************************************)
EXTENDS Controllers, F64, Dyadic, TraceIO
VARIABLE tid

Poly(c) ==
  PolyClauses(c.d, c.deg, c.states, c.probes)
  \cup (IF \E k \in 1..Len(c.combos) :
             LET e == c.combos[k] IN
             e.out # SumSeq([q \in 1..Len(c.probes) |-> e.p[q] * c.probes[q][e.s]], 1)
        THEN {"not-linear-in-parameters"} ELSE {})
PLin(c) == IF \E k \in 1..Len(c.evals) : ~NearestLawOK(c.evals[k].anchors, c.evals[k].laws, c.evals[k].s, c.evals[k].out)
           THEN {"not-the-law-of-a-nearest-anchor"} ELSE {}
Peaks(c) == (IF \E k \in 1..Len(c.evals) : LET e == c.evals[k] IN ~PeaksExact(e.mults, e.biases, e.ws, e.s)
             THEN {"driver-peaks-not-exact"} ELSE {})
            \cup (IF \E k \in 1..Len(c.evals) : LET e == c.evals[k] IN
                       PeaksExact(e.mults, e.biases, e.ws, e.s) /\ e.out # PeaksOut(e.mults, e.biases, e.ws, e.s)
                  THEN {"peaks-not-sum-of-active-peaks"} ELSE {})
Ann(c) == AnnClauses(c.nin, c.layers, c.nout, c.pdims, c.neurons, c.outs)
          \cup (IF c.zero_ok # 1 THEN {"compiled-network-not-0-for-zero-parameters"} ELSE {})
Range(c) == IF \E k \in 1..Len(c.vals) : ~FInClosed(c.vals[k], c.lo, c.hi)
            THEN {"value-outside-search-interval:" \o c.name} ELSE {}
Lorenz(c) == IF \E k \in 1..Len(c.evals) : LET e == c.evals[k] IN
                  \/ \E i \in 1..3 : e.out[i] >= 2000000000    \* the driver's marker: not an integer (TLC evaluates left to right)
                  \/ e.out[1] # 10 * (e.y - e.x)
                  \/ e.out[2] # 28 * e.x - e.y - e.x * e.z + e.c
                  \/ 3 * e.out[3] # 3 * e.x * e.y - 8 * e.z
             THEN {"lorenz-equations"} ELSE {}
\* Stuart-Landau and the coupled oscillators on INTEGER states, recomputed exactly in fixed point (Dyadic)
\* out values are signed fixed-point records (exact images of the doubles the code returned)
SLExpect(e) ==
  LET r == e.s[1] * e.s[1] + e.s[2] * e.s[2]
      sigma == DSub(D01, DInt(r))
  IN <<DSub(DMulInt(sigma, e.s[1]), DInt(e.s[2])), DAdd(DMulInt(sigma, e.s[2]), DInt(e.s[1] + e.c))>>
AbsI(v) == IF v < 0 THEN -v ELSE v
SLTerms(e) == DAbs(DInt((AbsI(e.s[1]) + AbsI(e.s[2])) * (1 + e.s[1] * e.s[1] + e.s[2] * e.s[2]) + AbsI(e.c) + 1))
StuartLandau(c) == IF ~ConstantsOK THEN {"spec-constants"}
  ELSE IF \E k \in 1..Len(c.evals) : LET e == c.evals[k] x == SLExpect(e) IN
            ~DClose(e.out[1], x[1], SLTerms(e)) \/ ~DClose(e.out[2], x[2], SLTerms(e))
       THEN {"stuart-landau-equations"} ELSE {}
OscExpect(e) ==
  LET a == e.s
      r1 == a[1] * a[1] + a[2] * a[2]  r2 == a[3] * a[3] + a[4] * a[4]  r3 == a[5] * a[5] + a[6] * a[6]
      s1 == (-r1) + r2 - r3
      sg2 == DSub(D01, DInt(r2))
      sg3 == SNeg(D01)
  IN <<DInt(s1 * a[1] - a[2]), DInt(s1 * a[2] + a[1]),
       DSub(DMulInt(sg2, a[3]), DMulInt(DPi, a[4])),
       DAdd(DAdd(DMulInt(sg2, a[4]), DMulInt(DPi, a[3])), DInt(e.c)),
       DSub(DMulInt(sg3, a[5]), DMulInt(DPi2, a[6])),
       DAdd(DAdd(DMulInt(sg3, a[6]), DMulInt(DPi2, a[5])), DInt(e.c))>>
OscTerms(e) == LET m == 1 + AbsI(e.s[1]) + AbsI(e.s[2]) + AbsI(e.s[3]) + AbsI(e.s[4]) + AbsI(e.s[5]) + AbsI(e.s[6]) IN
               DAbs(DInt(m * m * m * 12 + AbsI(e.c)))
Oscillators(c) == IF ~ConstantsOK THEN {"spec-constants"}
  ELSE IF \E k \in 1..Len(c.evals) : LET e == c.evals[k] x == OscExpect(e) IN
            \E j \in 1..6 : ~DClose(e.out[j], x[j], OscTerms(e))
       THEN {"coupled-oscillator-equations"} ELSE {}
Axes(c) == IF \E k \in 1..Len(c.evals) : c.evals[k].expect # c.evals[k].out THEN {"equations:" \o c.name} ELSE {}

\* make_ann keeps the controllers it has built (keyed by the architecture): asking again for an architecture must
\* give the controller built for exactly that architecture - the same object, with its dimensions
AnnCache(c) ==
  IF \E k \in 1..Len(c.hits) : LET h == c.hits[k] IN
        h.same # 1 \/ h.sd # h.nin \/ h.cd # h.nout \/ h.pd # AnnParamCount(h.nin, h.layers, h.nout)
  THEN {"cached-controller-is-not-the-one-of-the-architecture"} ELSE {}
Verdict(c) ==
  (CASE c.kind = "anncache" -> AnnCache(c) [] c.kind = "poly" -> Poly(c) [] c.kind = "plin" -> PLin(c) [] c.kind = "peaks" -> Peaks(c)
     [] c.kind = "ann" -> Ann(c) [] c.kind = "range" -> Range(c) [] c.kind = "lorenz" -> Lorenz(c)
     [] c.kind = "axes" -> Axes(c) [] c.kind = "sl" -> StuartLandau(c) [] c.kind = "osc" -> Oscillators(c))
  \cup (IF c.unchanged # 1 THEN {"inputs-modified"} ELSE {})
Init == tid = 0
Next == /\ tid < NCases /\ tid' = tid + 1
        /\ PrintT(<<"V", Cases[tid'].id, Verdict(Cases[tid'])>>)
Spec == Init /\ [][Next]_tid
=============================================================================
