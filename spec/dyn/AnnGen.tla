-------------------------------- MODULE AnnGen --------------------------------
(***************************************************************************)
(* The ANN code generator as a state machine (design level): it emits one  *)
(* assignment per neuron and reuses variable names of earlier layers.      *)
(*   vin    variables holding the inputs of the layer under construction   *)
(*   vout   variables assigned so far in that layer                        *)
(*   cached variables whose values are no longer needed (free for reuse)   *)
(*   store  what every variable currently holds: <<layer, index>>          *)
(* TLC explores every architecture of the scope and checks that every      *)
(* neuron reads exactly the previous layer (no assignment targets a        *)
(* variable that is still to be read or already holds an output of the     *)
(* current layer) and that the parameter counter equals the closed         *)
(* formula.  ProbesSeparate: the prime-valued probe states used for the    *)
(* polynomial controllers tell all monomials apart.                        *)
(***************************************************************************)
EXTENDS Controllers, TLC
CONSTANTS MaxIn, MaxLayers, MaxWidth
VARIABLES nin, layers, l, k, vin, vout, cached, store, fresh, params, reads
vars == <<nin, layers, l, k, vin, vout, cached, store, fresh, params, reads>>

Archs == UNION {[1..m -> 1..MaxWidth] : m \in 0..MaxLayers}
Init == /\ nin \in 2..MaxIn /\ layers \in Archs
        /\ l = 1 /\ k = 1
        /\ vin = [i \in 1..nin |-> <<"s", i>>]
        /\ vout = <<>> /\ cached = <<>>
        /\ store = [v \in {<<"s", i>> : i \in 1..nin} |-> <<0, v[2]>>]
        /\ fresh = 0 /\ params = 0 /\ reads = {}

Neuron ==
  /\ l <= Len(layers) /\ k <= layers[l]
  /\ LET useCached == Len(cached) > 0
         var == IF useCached THEN cached[Len(cached)] ELSE <<"v", fresh + 1>>
     IN /\ cached' = (IF useCached THEN SubSeq(cached, 1, Len(cached) - 1) ELSE cached)
        /\ fresh' = (IF useCached THEN fresh ELSE fresh + 1)
        /\ reads' = {store[vin[j]] : j \in 1..Len(vin)}     \* what this neuron reads, BEFORE the assignment
        /\ store' = [v \in DOMAIN store \cup {var} |-> IF v = var THEN <<l, k>> ELSE store[v]]
        /\ vout' = Append(vout, var)
        /\ params' = params + 1 + Len(vin)
        /\ k' = k + 1
        /\ UNCHANGED <<nin, layers, l, vin>>
EndLayer ==
  /\ l <= Len(layers) /\ k > layers[l]
  /\ cached' = cached \o vin /\ vin' = vout /\ vout' = <<>> /\ l' = l + 1 /\ k' = 1
  /\ UNCHANGED <<nin, layers, store, fresh, params, reads>>
Next == Neuron \/ EndLayer
Spec == Init /\ [][Next]_vars

PrevWidth == IF l = 1 THEN nin ELSE layers[l - 1]
\* every neuron reads exactly the previous layer
ReadsPreviousLayer == (k > 1 /\ l <= Len(layers)) => reads = {<<l - 1, j>> : j \in 1..PrevWidth}
\* the inputs of the layer under construction are intact while it is being built
InputsIntact == l <= Len(layers) =>
   /\ Len(vin) = PrevWidth
   /\ \A j \in 1..Len(vin) : store[vin[j]] = <<l - 1, j>>
   /\ \A a \in 1..Len(vin) : \A b \in 1..Len(vin) : a # b => vin[a] # vin[b]
RECURSIVE HiddenParams(_, _, _)
HiddenParams(n, ls, i) == IF i > Len(ls) THEN 0
                          ELSE ls[i] * (1 + (IF i = 1 THEN n ELSE ls[i - 1])) + HiddenParams(n, ls, i + 1)
ParamFormula == (l > Len(layers)) => params = HiddenParams(nin, layers, 1)

Probes2 == <<<<2, 3>>, <<3, 5>>, <<5, 2>>, <<1, 1>>>>
Probes3 == <<<<2, 3, 5>>, <<3, 5, 7>>, <<5, 2, 3>>, <<1, 1, 1>>>>
ProbesSeparate == \A d \in {2, 3} : \A deg \in 1..3 : \A e1 \in Exps(d, deg) : \A e2 \in Exps(d, deg) :
   e1 # e2 => \E q \in 1..4 : LET st == IF d = 2 THEN Probes2[q] ELSE Probes3[q] IN
                                ProdPow(st, e1, 1) # ProdPow(st, e2, 1)
MonomialCount == Cardinality(Exps(2, 3)) = 9 /\ Cardinality(Exps(3, 3)) = 19 /\ Cardinality(Exps(3, 2)) = 9
=============================================================================
