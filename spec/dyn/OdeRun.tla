-------------------------------- MODULE OdeRun --------------------------------
(***************************************************************************)
(* The retry loop of the controlled-system simulation as a state machine.  *)
(* One cycle = one attempt to integrate over [0, limit] and to sample      *)
(* `steps` rows from the dense output.  An attempt ends in one of          *)
(*   "ok"              all rows sampled, everything within bounds          *)
(*   "first-row-bad"   the controller output for the start state is out of *)
(*                     bounds: nothing can be simulated -> failure row     *)
(*   "diverged"        state/control left (-1e10, 1e10) while integrating  *)
(*   "sample-failed"   a sampled row was out of bounds / not interpolable  *)
(* After a failed attempt the time limit is strictly reduced; there are at *)
(* most MaxCycles attempts.  Time limits are abstracted to a strictly      *)
(* ordered rank (0 = "too small to go on").  Assumption: one integration   *)
(* attempt terminates.                                                     *)
(***************************************************************************)
EXTENDS Naturals, Sequences, TLC
CONSTANTS MaxCycles, TopRank
VARIABLES cycle, limit, pc, hist
vars == <<cycle, limit, pc, hist>>

Init == cycle = 1 /\ limit = TopRank /\ pc = "attempt" /\ hist = <<TopRank>>
Attempt(outcome) ==
  /\ pc = "attempt"
  /\ IF outcome = "ok" THEN pc' = "success" /\ UNCHANGED <<cycle, limit, hist>>
     ELSE IF outcome = "first-row-bad" THEN pc' = "failure" /\ UNCHANGED <<cycle, limit, hist>>
     ELSE \E nl \in 0..(limit - 1) :      \* strictly smaller, by how much is not specified
            /\ limit' = nl
            /\ IF cycle > MaxCycles - 1 \/ nl = 0 THEN pc' = "failure" /\ UNCHANGED <<cycle, hist>>
               ELSE pc' = "attempt" /\ cycle' = cycle + 1 /\ hist' = Append(hist, nl)
Next == \E o \in {"ok", "first-row-bad", "diverged", "sample-failed"} : Attempt(o)
Spec == Init /\ [][Next]_vars /\ WF_vars(Next)

Returned == pc \in {"success", "failure"}
Terminates == <>Returned
BoundedCycles == cycle <= MaxCycles /\ Len(hist) = cycle
Decreasing == \A i \in 1..(Len(hist) - 1) : hist[i + 1] < hist[i]
=============================================================================
