---------------------------------- MODULE FoM ----------------------------------
(***************************************************************************)
(* The controller-synthesis objective as a history machine.                *)
(*  mode    : "raw" (real system equations) or a model id                  *)
(*  chunks  : the training data collected so far, as a sequence of         *)
(*            <<parameter vector id, training case>> (one chunk per        *)
(*            successfully simulated case of a raw evaluation)             *)
(* Parameter vectors are abstract ids; FailAt[x] is the first training     *)
(* case whose figure of merit is invalid under the REAL equations          *)
(* (NCases + 1 = none), a fixed attribute of x.  Evaluate returns a value  *)
(* that depends on (x, mode) only; raw evaluations append the chunks of    *)
(* the cases before the failing one; nothing else touches the chunks       *)
(* except Initialize, which clears them and returns to raw mode.           *)
(***************************************************************************)
EXTENDS Naturals, Sequences, FiniteSets, TLC
CONSTANTS Xs, Models, NCases, FailAt, MaxLen,
          Supports      \* TRUE: the objective was created with model support (it records training data and can be
                        \* switched to a model); FALSE: the default - it records nothing, and set_model /
                        \* get_differentials are REFUSED and must leave it exactly as it was
VARIABLES mode, chunks, hist, lastret
vars == <<mode, chunks, hist, lastret>>

Init == mode = "raw" /\ chunks = <<>> /\ hist = <<>> /\ lastret = <<"none">>
Log(a) == hist' = Append(hist, a)
Initialize == /\ mode' = "raw" /\ chunks' = <<>> /\ lastret' = <<"none">> /\ Log(<<"init">>)
SetRaw == /\ mode' = "raw" /\ UNCHANGED chunks /\ lastret' = <<"none">> /\ Log(<<"raw">>)
SetModel(m) == IF Supports THEN /\ mode' = m /\ UNCHANGED chunks /\ lastret' = <<"none">> /\ Log(<<"model", m>>)
               ELSE /\ UNCHANGED <<mode, chunks>> /\ lastret' = <<"refused">> /\ Log(<<"model-refused", m>>)
GetDiff == IF Supports THEN /\ UNCHANGED <<mode, chunks>> /\ lastret' = <<"diff", chunks>> /\ Log(<<"diff">>)
           ELSE /\ UNCHANGED <<mode, chunks>> /\ lastret' = <<"refused">> /\ Log(<<"diff-refused">>)
NewChunks(x) == [c \in 1..((IF FailAt[x] <= NCases THEN FailAt[x] ELSE NCases + 1) - 1) |-> <<x, c>>]
Evaluate(x) ==
  /\ UNCHANGED mode
  /\ chunks' = IF mode = "raw" /\ Supports THEN chunks \o NewChunks(x) ELSE chunks
  /\ lastret' = <<"value", x, mode>>       \* the value is a function of (x, mode) - nothing else
  /\ Log(<<"eval", x>>)
Next == /\ Len(hist) < MaxLen
        /\ (Initialize \/ SetRaw \/ GetDiff \/ (\E m \in Models : SetModel(m)) \/ (\E x \in Xs : Evaluate(x)))
Spec == Init /\ [][Next]_vars

\* training data only grows during raw evaluations and is emptied only by Initialize
GrowsOnlyInRaw == [][
   \/ chunks' = chunks
   \/ (hist' = Append(hist, <<"init">>) /\ chunks' = <<>>)
   \/ (mode = "raw" /\ Supports /\ \E x \in Xs : hist' = Append(hist, <<"eval", x>>) /\ chunks' = chunks \o NewChunks(x))]_vars
\* without model support the objective never leaves the real equations and never records
NoSupportIsInert == ~Supports => (mode = "raw" /\ chunks = <<>>)
\* the recorded data is determined by the raw evaluations since the last Initialize
RECURSIVE Expected(_, _, _)
Expected(h, i, m) ==     \* m: mode before action i
  IF i > Len(h) THEN <<>>
  ELSE LET a == h[i] IN
    IF a[1] = "init" THEN Expected(h, i + 1, "raw")        \* restart: handled by caller (suffix)
    ELSE IF a[1] = "raw" THEN Expected(h, i + 1, "raw")
    ELSE IF a[1] = "model" THEN Expected(h, i + 1, a[2])
    ELSE IF a[1] = "eval" /\ m = "raw" /\ Supports THEN NewChunks(a[2]) \o Expected(h, i + 1, m)
    ELSE Expected(h, i + 1, m)
LastInit(h) == IF \E i \in 1..Len(h) : h[i][1] = "init"
               THEN CHOOSE i \in 1..Len(h) : h[i][1] = "init" /\ \A j \in (i + 1)..Len(h) : h[j][1] # "init"
               ELSE 0
RECURSIVE ModeAt(_, _)
ModeAt(h, i) == IF i = 0 THEN "raw"
                ELSE IF h[i][1] \in {"init", "raw"} THEN "raw"
                ELSE IF h[i][1] = "model" THEN h[i][2] ELSE ModeAt(h, i - 1)
DataIsFunctionOfHistory == chunks = Expected(hist, LastInit(hist) + 1, ModeAt(hist, LastInit(hist)))
=============================================================================
