-------------------------------- MODULE MC_FoM --------------------------------
(* Exhaustive histories of bounded length over three parameter vectors (one failing at the    *)
(* second training case, one at the first) and one model.  The histories of maximal length    *)
(* are replayed on a real FigureOfMerit / FigureOfMeritLE object.                              *)
EXTENDS FoM
FailAtDef == [x \in Xs |-> IF x = "bad2" THEN 2 ELSE IF x = "bad1" THEN 1 ELSE NCases + 1]
=============================================================================
