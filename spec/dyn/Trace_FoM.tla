------------------------------- MODULE Trace_FoM -------------------------------
(***************************************************************************)
(* Validation of recorded histories on ONE figure-of-merit object (C11).   *)
(* A case: [ncases, rowsper, fresh: <<[x, mode, v: F64, lo: F64, hi: F64,  *)
(*           failat]>>, steps: <<[a, x, m, v: F64, sc, df]>>]              *)
(*  fresh : for each (parameter vector, mode) used: the value a freshly    *)
(*          created objective returned, slack bounds lo <= mean-like       *)
(*          aggregate <= hi built by the driver from per-case figures of   *)
(*          merit it computed itself (run_ode + j_from_ode with the        *)
(*          system's documented state_dims_in_j and gamma), and the first  *)
(*          training case whose figure of merit is invalid (ncases+1: none)*)
(*  steps : the history; after each action the total number of rows in the *)
(*          two collected data lists (sc, df)                              *)
(* The abstract machine of FoM.tla is re-run on the history: the expected  *)
(* row count is (cases before failure) * rowsper per raw evaluation since  *)
(* the last initialize.                                                    *)
(***************************************************************************)
EXTENDS F64, Dyadic, TraceIO, Sequences, FiniteSets
VARIABLE tid

FreshOf(c, x, m) == CHOOSE k \in 1..Len(c.fresh) : c.fresh[k].x = x /\ c.fresh[k].mode = m
HasFresh(c, x, m) == \E k \in 1..Len(c.fresh) : c.fresh[k].x = x /\ c.fresh[k].mode = m

RECURSIVE Walk(_, _, _, _, _)
\* returns the set of violated clauses; mode and expected rows are threaded through
Walk(c, i, mode, rows, acc) ==
  IF i > Len(c.steps) THEN acc
  ELSE LET s == c.steps[i]
           sup == IF "supports" \in DOMAIN c THEN c.supports = 1 ELSE TRUE     \* created with model support?
           nmode == IF s.a \in {"init", "raw"} THEN "raw" ELSE IF s.a = "model" /\ sup THEN s.m ELSE mode
           fr == IF s.a = "eval" /\ HasFresh(c, s.x, mode) THEN c.fresh[FreshOf(c, s.x, mode)] ELSE [failat |-> 0]
           nrows == IF s.a = "init" THEN 0
                    ELSE IF s.a = "eval" /\ mode = "raw" /\ sup
                         THEN rows + ((IF fr.failat <= c.ncases THEN fr.failat ELSE c.ncases + 1) - 1) * c.rowsper
                         ELSE rows
           bad == (IF s.sc # nrows \/ s.df # nrows THEN
                     {IF s.a = "eval" /\ mode # "raw" THEN "training-data-changed-in-model-mode"
                      ELSE IF s.a = "init" THEN "initialize-did-not-clear-training-data"
                      ELSE IF s.sc # s.df THEN "state-control-and-differential-rows-differ"
                      ELSE "training-data-not-from-raw-evaluations"}
                   ELSE {})
                  \cup (IF s.a = "eval" THEN
                          (IF ~HasFresh(c, s.x, mode) THEN {"driver-missing-fresh-value"}
                           ELSE (IF ~FSame(s.v, fr.v) THEN {"value-differs-from-fresh-objective"} ELSE {})
                                \cup (IF ~(FInClosed(s.v, FZero, F1e100) \/ FSame(s.v, F1e200))
                                      THEN {"value-not-in-[0,1e100]-or-1e200"} ELSE {})
                                \cup (IF mode = "raw" /\ fr.failat > c.ncases /\ ~(FLe(fr.lo, s.v) /\ FLe(s.v, fr.hi))
                                      THEN {"value-not-between-min-and-max-of-case-merits"} ELSE {})
                                \cup (IF mode = "raw" /\ fr.failat <= c.ncases /\ ~FSame(s.v, F1e200)
                                      THEN {"failure-value-not-1e200"} ELSE {}))
                        ELSE {})
                  \* without model support, set_model and get_differentials must be refused (and change nothing:
                  \* the evaluations that follow are judged against the real equations as before)
                  \cup (IF ~sup /\ s.a \in {"model", "diff"} /\ ~("refused" \in DOMAIN s /\ s.refused = 1)
                        THEN {"operation-not-refused-without-model-support"} ELSE {})
       IN Walk(c, i + 1, nmode, nrows, acc \cup bad)

\* the arithmetic mean, recomputed exactly: the per-case merits js and the fresh value vs are given as natural
\* numbers scaled by one common power of two (exact images of the doubles); n * v must equal the sum of the
\* js up to the rounding of a float mean (relative 2^-40)
RECURSIVE BSumAll(_, _)
BSumAll(js, i) == IF i > Len(js) THEN <<>> ELSE BAdd(js[i], BSumAll(js, i + 1))
MeanClauses(c) ==
  IF c.variant # "mean" THEN {}
  ELSE UNION {LET f == c.fresh[k] IN
              IF f.mode # "raw" \/ f.failat <= c.ncases \/ Len(f.js) = 0 THEN {}
              ELSE LET S == BSumAll(f.js, 1)
                       nv == BMul(f.vs, BOfNat(Len(f.js)))
                       diff == IF BLe(S, nv) THEN BSub(nv, S) ELSE BSub(S, nv)
                   IN IF BLe(BMul(diff, P40), BAdd(S, <<1>>)) THEN {} ELSE {"value-not-the-mean-of-case-merits"}
              : k \in 1..Len(c.fresh)}
Verdict(c) == Walk(c, 1, "raw", 0, {}) \cup MeanClauses(c)
Init == tid = 0
Next == /\ tid < NCases /\ tid' = tid + 1
        /\ PrintT(<<"V", Cases[tid'].id, Verdict(Cases[tid'])>>)
Spec == Init /\ [][Next]_tid
=============================================================================
