------------------------------- MODULE Surrogate -------------------------------
(***************************************************************************)
(* The protocol of the surrogate-model optimizer around ONE objective      *)
(* object (C11): warm-up evaluations on the real system, then repeatedly   *)
(*   train a model on the collected data (reads the data),                 *)
(*   disable initialize(), switch the objective to the model, run an inner *)
(*   optimisation on the model (the inner run calls initialize() and       *)
(*   evaluate many times), switch back to the real system, re-enable       *)
(*   initialize(), and evaluate the result on the real system (budgeted).  *)
(* rows = amount of collected training data.  TLC checks: data never       *)
(* shrinks inside solve, grows only in real-system evaluations, every      *)
(* budgeted evaluation happens on the real system, and the objective is    *)
(* back in real-system mode with initialize() enabled when solve returns.  *)
(***************************************************************************)
EXTENDS Naturals, Sequences, TLC
CONSTANTS Budget, Warmup, InnerMax
VARIABLES phase, mode, initOn, rows, fes, inner
vars == <<phase, mode, initOn, rows, fes, inner>>

Init == phase = "warmup" /\ mode = "raw" /\ initOn = TRUE /\ rows = 0 /\ fes = 0 /\ inner = 0
RealEval == /\ mode = "raw" /\ fes < Budget /\ fes' = fes + 1 /\ rows' = rows + 1
WarmupEval == phase = "warmup" /\ fes < Warmup /\ RealEval /\ UNCHANGED <<phase, mode, initOn, inner>>
StartTrain == /\ phase = "warmup" /\ fes >= Warmup /\ fes < Budget
              /\ phase' = "train" /\ UNCHANGED <<mode, initOn, rows, fes, inner>>
Train == phase = "train" /\ phase' = "model" /\ initOn' = FALSE /\ mode' = "model" /\ inner' = 0
         /\ UNCHANGED <<rows, fes>>
\* the inner run: initialize() is a no-op now, evaluations use the model and collect nothing
InnerInit == phase = "model" /\ ~initOn /\ UNCHANGED vars
InnerEval == phase = "model" /\ inner < InnerMax /\ inner' = inner + 1 /\ UNCHANGED <<phase, mode, initOn, rows, fes>>
EndModel == phase = "model" /\ phase' = "real" /\ mode' = "raw" /\ initOn' = TRUE /\ UNCHANGED <<rows, fes, inner>>
Real == /\ phase = "real" /\ RealEval
        /\ phase' = (IF fes + 1 < Budget THEN "train" ELSE "done") /\ UNCHANGED <<mode, initOn, inner>>
Finish == phase = "warmup" /\ fes >= Budget /\ phase' = "done" /\ UNCHANGED <<mode, initOn, rows, fes, inner>>
Next == WarmupEval \/ StartTrain \/ Train \/ InnerInit \/ InnerEval \/ EndModel \/ Real \/ Finish
Spec == Init /\ [][Next]_vars /\ WF_vars(Next)

DataNeverShrinks == [][rows' >= rows]_vars
GrowsOnlyOnRealSystem == [][rows' # rows => (mode = "raw" /\ fes' = fes + 1)]_vars
BudgetedOnRealSystem == [][fes' # fes => mode = "raw"]_vars
RestoredAtEnd == phase = "done" => (mode = "raw" /\ initOn)
WithinBudget == fes <= Budget
Terminates == <>(phase = "done")
=============================================================================
