------------------------------- MODULE Trace_Ode -------------------------------
(***************************************************************************)
(* Validation of recorded simulations and figure-of-merit computations     *)
(* (C10).  All floating point data are F64 records; TLC decides order and  *)
(* bit-equality statements exactly.  Case kinds:                           *)
(*  "run":   [n, cdim, steps, limit, start: <<F64>>, rows: <<<<F64>>>>,    *)
(*            ctrl: <<<<F64>>>> (controller re-invoked per row by the      *)
(*            driver), cycles: <<[c, limit: F64]>> (hook), timeout: 0/1]   *)
(*  "merit": exact small-integer arrays: [sd, use, g4 (gamma*4), times8    *)
(*            (times * 8), rows (states+controls, ints), jn, jd (J as a    *)
(*            fraction), tn, td, diffs: <<<<[n, d]>>>>]                    *)
(*  "multi": [ntest, ntrain, calls, log]  (multi_run_ode + ResultsLog)     *)
(*  "describe": [ntest, ntrain, header_ok, nlines, rows_ok]                *)
(*  "sampling": [pairs: <<[a, b]>>, m]  dyadic numbers (scale 2^60)        *)
(***************************************************************************)
EXTENDS F64, Dyadic, TraceIO, Sequences, FiniteSets
VARIABLE tid

F1e10n == FNeg(F1e10)
CellOK(x) == FInOpen(x, F1e10n, F1e10)

Run(c) ==
  IF c.timeout = 1 THEN {"did-not-terminate"}
  ELSE LET R == c.rows m == Len(R) w == c.n + c.cdim + 1 IN
  (IF \E i \in 1..m : Len(R[i]) # w THEN {"row-width"} ELSE
   IF m = c.steps /\ (m > 1 \/ ~FSame(R[1][c.n + 1], F1e100)) THEN
     \* ---- a complete simulation
     (IF \E k \in 1..c.n : ~FSame(R[1][k], c.start[k]) THEN {"first-row-not-start-state"} ELSE {})
     \cup (IF ~FIsZero(R[1][w]) THEN {"time-does-not-start-at-0"} ELSE {})
     \cup (IF \E i \in 1..(m - 1) : ~FLt(R[i][w], R[i + 1][w]) THEN {"time-not-strictly-increasing"} ELSE {})
     \cup (IF ~FLe(R[m][w], c.limit) THEN {"time-beyond-limit"} ELSE {})
     \cup (IF \E i \in 1..m : \E k \in 1..w : ~CellOK(R[i][k]) THEN {"value-not-finite-within-1e10"} ELSE {})
     \cup (IF \E i \in 1..m : \E k \in 1..c.cdim : ~FSame(R[i][c.n + k], c.ctrl[i][k])
           THEN {"control-not-controller-output"} ELSE {})
     \cup (IF Len(c.cycles) > 0 /\ ~FSame(R[m][w], c.cycles[Len(c.cycles)].limit)
           THEN {"last-time-not-cycle-limit"} ELSE {})
   ELSE IF m = 1 THEN
     \* ---- the failure row
     (IF \E k \in 1..c.n : ~FSame(R[1][k], c.start[k]) THEN {"failure-row-state"} ELSE {})
     \cup (IF \E k \in 1..c.cdim : ~FSame(R[1][c.n + k], F1e100) THEN {"failure-row-control"} ELSE {})
     \cup (IF ~FIsZero(R[1][w]) THEN {"failure-row-time"} ELSE {})
   ELSE {"row-count"})
  \cup (IF Len(c.cycles) > 5 THEN {"more-than-5-cycles"} ELSE {})
  \cup (IF Len(c.cycles) = 0 THEN {"no-cycle-recorded"} ELSE
        (IF ~FSame(c.cycles[1].limit, c.limit) THEN {"first-cycle-limit"} ELSE {})
        \cup (IF \E i \in 1..(Len(c.cycles) - 1) :
                   ~FLt(c.cycles[i + 1].limit, c.cycles[i].limit) \/ c.cycles[i + 1].c # c.cycles[i].c + 1
              THEN {"cycle-limits-not-strictly-decreasing"} ELSE {}))

\* sum over i = 1..m-1 of a_i * (g4 * sum c^2 + 4 * [i >= 2] * sum_{s < use} s^2)   (times 32)
RECURSIVE SumSq(_, _, _)
SumSq(row, lo, hi) == IF lo > hi THEN 0 ELSE row[lo] * row[lo] + SumSq(row, lo + 1, hi)
RECURSIVE MeritSum(_, _)
MeritSum(c, i) ==
  IF i >= Len(c.rows) THEN 0
  ELSE LET a == c.times8[i + 1] - c.times8[i]
           prev == c.rows[i]
           ctl == SumSq(prev, c.sd + 1, Len(prev))
           sts == IF i >= 2 THEN SumSq(prev, 1, c.use) ELSE 0
       IN a * (c.g4 * ctl + 4 * sts) + MeritSum(c, i + 1)
Merit(c) ==
  LET m == Len(c.rows) T8 == c.times8[m] IN
  \* J = MeritSum / 32 / (T8 / 8) = MeritSum / (4 * T8)
  (IF c.jn * 4 * T8 # c.jd * MeritSum(c, 1) THEN {"figure-of-merit-not-documented-sum"} ELSE {})
  \cup (IF c.jn < 0 THEN {"figure-of-merit-negative"} ELSE {})
  \cup (IF c.tn * 8 # c.td * T8 THEN {"t-from-ode"} ELSE {})
  \cup (IF \E i \in 1..(m - 1) : \E k \in 1..c.sd :
             \* diff * (t_i+1 - t_i) = s_i+1 - s_i
             c.diffs[i][k].n * (c.times8[i + 1] - c.times8[i]) # c.diffs[i][k].d * 8 * (c.rows[i + 1][k] - c.rows[i][k])
        THEN {"finite-difference"} ELSE {})

\* ---- the figure of merit of a REAL simulation output, recomputed in exact arithmetic.
\* All doubles are given as naturals scaled by 2^K (absolute values; only squares are used):
\*   w[i]   = t[i+1] - t[i]            (i = 1..m-1)
\*   st[i]  = the used state entries of row i,  ct[i] = the control entries of row i
\*   g = gamma, T = t[m], j = the value the code returned
\* J * T must equal  sum_i w[i] * (g * sum ct[i]^2 + [i >= 2] sum st[i]^2)  up to float rounding.
RECURSIVE BSumSq(_, _)
BSumSq(v, k) == IF k > Len(v) THEN <<>> ELSE BAdd(BMul(v[k], v[k]), BSumSq(v, k + 1))
RECURSIVE JNum(_, _)
JNum(c, i) == IF i > Len(c.w) THEN <<>>
              ELSE BAdd(BMul(c.w[i], BAdd(BMul(c.g, BSumSq(c.ct[i], 1)),
                                          IF i >= 2 THEN BMul(c.one, BSumSq(c.st[i], 1)) ELSE <<>>)),
                        JNum(c, i + 1))
JReal(c) ==
  LET num == JNum(c, 1)                                  \* scale 2^(4K)
      lhs == BMul(BMul(c.j, c.T), BMul(c.one, c.one))   \* scale 2^(4K)
      diff == IF BLe(num, lhs) THEN BSub(lhs, num) ELSE BSub(num, lhs)
  IN IF BLe(BMul(diff, P40), BAdd(num, BMul(c.one, BMul(c.one, BMul(c.one, c.one)))))   \* rel 2^-40 + abs 2^-40
     THEN {} ELSE {"figure-of-merit-of-simulation-not-documented-sum"}
\* multi_run_ode: one collector call per starting state - the test states first, then the training states - with
\* a running index from 0, the simulation of that state under the step count / time limit of ITS group, and the
\* figure of merit and total time of exactly that simulation.  ResultsLog turns the calls into a table: a header
\* line first, then per call: figure of merit; total time; number of rows; start state; end state.
\* calls: <<[index, group ("test"/"train"), same_ode, same_j, same_t (0/1: bit-equal to the direct computation)]>>
\* log: [header_ok, nlines, rows_ok (0/1 per call: the line holds that call's values)]
Multi(c) ==
  LET k == c.ntest + c.ntrain IN
  (IF Len(c.calls) # k THEN {"multi-run:number-of-collector-calls"} ELSE
   (IF \E i \in 1..k : c.calls[i].index # i - 1 THEN {"multi-run:index-not-running-from-0"} ELSE {})
   \cup (IF \E i \in 1..k : c.calls[i].group # (IF i <= c.ntest THEN "test" ELSE "train")
         THEN {"multi-run:test-states-not-before-training-states"} ELSE {})
   \cup (IF \E i \in 1..k : c.calls[i].same_ode # 1 THEN {"multi-run:simulation-not-that-of-the-state-and-its-group-budget"} ELSE {})
   \cup (IF \E i \in 1..k : c.calls[i].same_ode = 1 /\ c.calls[i].same_j # 1 THEN {"multi-run:figure-of-merit-not-of-that-simulation"} ELSE {})
   \cup (IF \E i \in 1..k : c.calls[i].same_ode = 1 /\ c.calls[i].same_t # 1 THEN {"multi-run:time-not-of-that-simulation"} ELSE {}))
  \cup (IF c.log.header_ok # 1 \/ c.log.nlines # Len(c.calls) + 1 THEN {"results-log:header-once-then-one-line-per-run"} ELSE {})
  \cup (IF \E i \in 1..Len(c.log.rows_ok) : c.log.rows_ok[i] # 1 THEN {"results-log:line-not-the-values-of-its-run"} ELSE {})
\* "for well-behaved linear systems the simulated states agree with the analytic solution": closed forms need
\* exp / cos and are out of TLC's reach, but a necessary consequence is not - the state at a time t must not depend
\* on how many OTHER rows were requested.  A contracting linear system is simulated twice, coarsely and finely
\* (the coarse times are a subset of the fine ones); at the common times the two states (exact dyadic numbers,
\* scale 2^60) must agree within 1/16 of (1 + the largest |state| of the fine run) - far above the integrator's
\* tolerance (1e-3 relative), far below what an interpolation outside the accepted step produces.
\* pairs: <<[a, b]>> with a, b the coarse / fine value of one state variable at one common time; m = 1 + max |x|
Sampling(c) ==
  IF \E k \in 1..Len(c.pairs) :
        ~BLe(BMul(DAbs(DSub(c.pairs[k].a, c.pairs[k].b)), BOfNat(16)), DAbs(c.m))
  THEN {"state-at-a-time-depends-on-the-number-of-requested-rows"} ELSE {}
\* System.describe_system: the results table it writes holds one line per starting state - test states first - with
\* the values of that state's simulation under the budget (steps, time) of ITS group
Describe(c) ==
  (IF c.header_ok # 1 \/ c.nlines # c.ntest + c.ntrain + 1 THEN {"describe-system:header-once-then-one-line-per-run"} ELSE {})
  \cup (IF \E i \in 1..Len(c.rows_ok) : c.rows_ok[i] # 1
        THEN {"describe-system:line-not-the-values-of-its-run-under-its-group-budget"} ELSE {})
Verdict(c) == IF c.kind = "run" THEN Run(c) ELSE IF c.kind = "merit" THEN Merit(c)
              ELSE IF c.kind = "multi" THEN Multi(c) ELSE IF c.kind = "describe" THEN Describe(c)
              ELSE IF c.kind = "sampling" THEN Sampling(c) ELSE JReal(c)
Init == tid = 0
Next == /\ tid < NCases /\ tid' = tid + 1
        /\ PrintT(<<"V", Cases[tid'].id, Verdict(Cases[tid'])>>)
Spec == Init /\ [][Next]_tid
=============================================================================
