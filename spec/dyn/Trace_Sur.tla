------------------------------- MODULE Trace_Sur -------------------------------
(***************************************************************************)
(* A recorded run of the surrogate optimizer seen from its objective (C11).*)
(* steps: <<[a, v: F64, sc, df]>> with a in {"init","raw","model","diff",  *)
(* "eval"}; sc/df = rows of the two collected data lists after the action; *)
(* fes = evaluations the outer (budgeted) process counted; extra = number  *)
(* of real-system evaluations made after the search (log writing).         *)
(* The protocol of Surrogate.tla is checked on the observed sequence.      *)
(***************************************************************************)
EXTENDS F64, TraceIO, Sequences, FiniteSets
VARIABLE tid

RECURSIVE Walk(_, _, _, _, _, _)
Walk(c, i, mode, rows, rawEvals, acc) ==
  IF i > Len(c.steps)
  THEN acc \cup (IF mode # "raw" THEN {"objective-left-in-model-mode"} ELSE {})
           \cup (IF rawEvals # c.fes + c.extra THEN {"budgeted-evaluations-not-exactly-the-real-system-evaluations"} ELSE {})
  ELSE LET s == c.steps[i]
           nmode == IF s.a \in {"init", "raw"} THEN "raw" ELSE IF s.a = "model" THEN "model" ELSE mode
           bad == (IF s.sc # s.df THEN {"state-control-and-differential-rows-differ"} ELSE {})
                  \cup (IF s.sc < rows THEN {"training-data-shrank-inside-solve"} ELSE {})
                  \cup (IF s.sc > rows /\ ~(s.a = "eval" /\ mode = "raw")
                        THEN {"training-data-grew-outside-a-real-system-evaluation"} ELSE {})
                  \cup (IF s.a = "init" /\ mode = "model" THEN {"initialize-effective-in-model-mode"} ELSE {})
                  \cup (IF s.a = "eval" /\ mode = "raw" /\ s.has_fresh = 1 /\ ~FSame(s.v, s.fresh)
                        THEN {"real-system-value-differs-from-fresh-objective-on-pristine-system"} ELSE {})
                  \cup (IF s.a = "eval" /\ ~(FInClosed(s.v, FZero, F1e100) \/ FSame(s.v, F1e200))
                        THEN {"value-not-in-[0,1e100]-or-1e200"} ELSE {})
       IN Walk(c, i + 1, nmode, s.sc, rawEvals + (IF s.a = "eval" /\ mode = "raw" THEN 1 ELSE 0), acc \cup bad)

Verdict(c) == Walk(c, 1, "raw", 0, 0, {})
              \cup (IF c.fes > c.budget THEN {"more-evaluations-than-budget"} ELSE {})
              \* digests of the collected (state, control) and ds/dt matrices vs. a from-scratch re-collection
              \* of the same real-system evaluations on a pristine system
              \cup (IF c.data_crc # c.fresh_crc THEN {"training-data-content-differs-from-fresh-simulation"} ELSE {})
Init == tid = 0
Next == /\ tid < NCases /\ tid' = tid + 1
        /\ PrintT(<<"V", Cases[tid'].id, Verdict(Cases[tid'])>>)
Spec == Init /\ [][Next]_tid
=============================================================================
