------------------------------ MODULE Controllers ------------------------------
(***************************************************************************)
(* What the controller blueprints are documented to compute, as far as it  *)
(* can be decided exactly on integer inputs.                               *)
(***************************************************************************)
EXTENDS Naturals, Integers, Sequences, FiniteSets

RECURSIVE Pow(_, _)
Pow(b, e) == IF e = 0 THEN 1 ELSE b * Pow(b, e - 1)
RECURSIVE SumSeq(_, _)
SumSeq(s, i) == IF i > Len(s) THEN 0 ELSE s[i] + SumSeq(s, i + 1)
RECURSIVE ProdPow(_, _, _)
ProdPow(st, ex, i) == IF i > Len(st) THEN 1 ELSE Pow(st[i], ex[i]) * ProdPow(st, ex, i + 1)

\* ---- polynomial controllers: all monomials of total degree 1..deg in d variables
Exps(d, deg) == {e \in [1..d -> 0..deg] : SumSeq(e, 1) >= 1 /\ SumSeq(e, 1) <= deg}
\* probes: for parameter q, the controller output with unit parameter vector e_q at each probe state
MonomialsOf(d, deg, states, vals) ==
  {e \in Exps(d, deg) : \A k \in 1..Len(states) : ProdPow(states[k], e, 1) = vals[k]}
PolyClauses(d, deg, states, probes) ==
  LET np == Len(probes)
      M == [q \in 1..np |-> MonomialsOf(d, deg, states, probes[q])]
  IN (IF np # Cardinality(Exps(d, deg)) THEN {"parameter-count-not-number-of-monomials"} ELSE {})
     \cup (IF \E q \in 1..np : Cardinality(M[q]) = 0 THEN {"parameter-without-monomial"} ELSE {})
     \cup (IF \E q \in 1..np : Cardinality(M[q]) > 1 THEN {"driver-probes-ambiguous"} ELSE {})
     \cup (IF \E q \in 1..np : \E r \in 1..np : q # r /\ M[q] # {} /\ M[q] = M[r]
           THEN {"two-parameters-same-monomial"} ELSE {})
     \cup (IF \E e \in Exps(d, deg) : \A q \in 1..np : e \notin M[q] THEN {"monomial-missing"} ELSE {})

\* ---- partially linear: anchors/laws integers; params = anchors[k] \o laws[k] concatenated per anchor
SqD(a, s) == SumSeq([i \in 1..Len(s) |-> (s[i] - a[i]) * (s[i] - a[i])], 1)
Dot(a, s) == SumSeq([i \in 1..Len(s) |-> a[i] * s[i]], 1)
Nearest(anchors, s) == {k \in 1..Len(anchors) : \A j \in 1..Len(anchors) : SqD(anchors[k], s) <= SqD(anchors[j], s)}
NearestLawOK(anchors, laws, s, out) == \E k \in Nearest(anchors, s) : out = Dot(laws[k], s)

\* ---- peaks: peak(a) = exp(-a*a); inputs are chosen so that every pre-activation is 0 or |a| >= 28,
\* where exp(-a*a) is exactly 1 or 0 in double precision
PreAct(bias, w, s) == bias + Dot(w, s)
PeaksExact(mults, biases, ws, s) ==
  \A k \in 1..Len(mults) : LET a == PreAct(biases[k], ws[k], s) IN a = 0 \/ a >= 28 \/ a <= -28
PeaksOut(mults, biases, ws, s) ==
  SumSeq([k \in 1..Len(mults) |-> IF PreAct(biases[k], ws[k], s) = 0 THEN mults[k] ELSE 0], 1)

\* ---- generated networks: the data-flow graph recovered from a symbolic run of the generated code
\* neurons: <<[bias, ins: <<<<param, kind, ref>>>>]>> kind "s" (state index, 0-based) or "n" (neuron, 1-based)
\* outs: <<[mult, neuron]>>
RECURSIVE LayerOf(_, _)
LayerOf(neurons, k) ==
  LET ins == neurons[k].ins
      srcLayers == {IF ins[j][2] = "s" THEN 0 ELSE LayerOf(neurons, ins[j][3]) : j \in 1..Len(ins)}
  IN 1 + (CHOOSE m \in srcLayers : \A o \in srcLayers : m >= o)
\* number of parameters of the architecture: per hidden neuron a bias and one weight per input, per output a
\* multiplier, a bias and one weight per neuron of the last hidden layer (or per state variable if there is none)
RECURSIVE AnnHidden(_, _, _)
AnnHidden(nin, layers, i) == IF i > Len(layers) THEN 0
                             ELSE layers[i] * (1 + (IF i = 1 THEN nin ELSE layers[i - 1])) + AnnHidden(nin, layers, i + 1)
AnnParamCount(nin, layers, nout) ==
  AnnHidden(nin, layers, 1) + nout * (2 + (IF Len(layers) = 0 THEN nin ELSE layers[Len(layers)]))
AnnClauses(nin, layers, nout, pdims, neurons, outs) ==
  LET N == Len(neurons)
      L == [k \in 1..N |-> LayerOf(neurons, k)]
      depth == Len(layers) + 1
      Width(l) == IF l = 0 THEN nin ELSE IF l <= Len(layers) THEN layers[l] ELSE nout
      InLayer(l) == {k \in 1..N : L[k] = l}
      SrcSet(k) == {<<neurons[k].ins[j][2], neurons[k].ins[j][3]>> : j \in 1..Len(neurons[k].ins)}
      Expected(l) == IF l = 1 THEN {<<"s", i>> : i \in 0..(nin - 1)} ELSE {<<"n", q>> : q \in InLayer(l - 1)}
      params == [k \in 1..N |-> <<neurons[k].bias>> \o [j \in 1..Len(neurons[k].ins) |-> neurons[k].ins[j][1]]]
      allp == UNION {{params[k][j] : j \in 1..Len(params[k])} : k \in 1..N} \cup {outs[i].mult : i \in 1..Len(outs)}
      nparams == SumSeq([k \in 1..N |-> Len(params[k])], 1) + Len(outs)
  IN (IF \E l \in 1..depth : Cardinality(InLayer(l)) # Width(l) THEN {"layer-width"} ELSE {})
     \cup (IF \E k \in 1..N : L[k] > depth THEN {"network-too-deep"} ELSE {})
     \cup (IF \E k \in 1..N : SrcSet(k) # Expected(L[k]) \/ Len(neurons[k].ins) # Cardinality(SrcSet(k))
           THEN {"neuron-inputs-not-exactly-the-previous-layer"} ELSE {})
     \cup (IF Len(outs) # nout \/ {outs[i].neuron : i \in 1..Len(outs)} # InLayer(depth)
           THEN {"outputs-not-the-output-layer"} ELSE {})
     \cup (IF nparams # Cardinality(allp) THEN {"parameter-used-twice"} ELSE {})
     \cup (IF allp # 0..(pdims - 1) THEN {"parameters-not-0..param_dims-1"} ELSE {})
=============================================================================
