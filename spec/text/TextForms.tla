------------------------------- MODULE TextForms -------------------------------
(***************************************************************************)
(* Token-level grammars of the text forms of moptipyapps objects.          *)
(*  - compact instance string  name;n;W;H;w,h[,times];...   (times only if *)
(*    the item occurs more than once)                                      *)
(*  - matrix-like solutions (packing, game plan, ordering): the row-major  *)
(*    flattening as one token stream                                       *)
(* and their inverses.  Texts are handed over tokenised (integers).        *)
(***************************************************************************)
EXTENDS Naturals, Integers, Sequences, FiniteSets

ItemTokens(it) == IF it[3] = 1 THEN <<it[1], it[2]>> ELSE <<it[1], it[2], it[3]>>
InstTokens(inst) == [head |-> <<Len(inst.items), inst.W, inst.H>>,
                     items |-> [i \in 1..Len(inst.items) |-> ItemTokens(inst.items[i])]]
ItemFromTokens(t) == IF Len(t) = 2 THEN <<t[1], t[2], 1>> ELSE <<t[1], t[2], t[3]>>
InstFromTokens(tok) == [W |-> tok.head[2], H |-> tok.head[3],
                        items |-> [i \in 1..Len(tok.items) |-> ItemFromTokens(tok.items[i])]]
TokensWellFormed(tok) == /\ Len(tok.head) = 3 /\ tok.head[1] = Len(tok.items)
                         /\ \A i \in 1..Len(tok.items) : Len(tok.items[i]) \in {2, 3}
                         /\ \A i \in 1..Len(tok.items) : Len(tok.items[i]) = 3 => tok.items[i][3] > 1

RECURSIVE SumReps(_, _)
SumReps(items, i) == IF i > Len(items) THEN 0 ELSE items[i][3] + SumReps(items, i + 1)
RECURSIVE SumArea(_, _)
SumArea(items, i) == IF i > Len(items) THEN 0 ELSE items[i][1] * items[i][2] * items[i][3] + SumArea(items, i + 1)

Flatten(M) == IF Len(M) = 0 THEN <<>>
              ELSE LET c == Len(M[1]) IN [k \in 1..(Len(M) * c) |-> M[((k - 1) \div c) + 1][((k - 1) % c) + 1]]
Unflatten(t, rows, cols) == [i \in 1..rows |-> [j \in 1..cols |-> t[(i - 1) * cols + j]]]
=============================================================================
