-------------------------------- MODULE MC_Text --------------------------------
(* The grammars invert: for every small instance / matrix, parsing the tokens gives the object. *)
EXTENDS TextForms, TLC
CONSTANTS MaxV, MaxItems
VARIABLES inst, mat
vars == <<inst, mat>>
Items == (1..MaxV) \X (1..MaxV) \X (1..MaxV)
Init == /\ inst \in {[W |-> w, H |-> h, items |-> its] : w \in 1..MaxV, h \in 1..MaxV,
                       its \in UNION {[1..m -> Items] : m \in 1..MaxItems}}
        /\ mat \in UNION {[1..r -> [1..c -> (-1)..1]] : r \in 1..2, c \in 1..3}
Spec == Init /\ [][UNCHANGED vars]_vars
InstInverts == /\ TokensWellFormed(InstTokens(inst)) /\ InstFromTokens(InstTokens(inst)) = inst
MatInverts == Unflatten(Flatten(mat), Len(mat), Len(mat[1])) = mat
=============================================================================
