------------------------------- MODULE Trace_Text -------------------------------
(***************************************************************************)
(* Recorded write/read round trips (C19).  Case kinds:                     *)
(*  "inst": [W, H, items, tok: [head, items] (tokens of the compact string),*)
(*           name_ok, orig, back]  orig/back: [W,H,items,n_items,area,lb,   *)
(*           dtype] projections of the original / re-parsed instance       *)
(*  "packlib": [W, H, items, name_ok, ok, orig, back] a 2DPackLib file of the *)
(*           instance read by from_2dpacklib                                *)
(*  "rows": [what, orig (matrix), tok (flat tokens of the first/only text   *)
(*           part), back (matrix), ok]                                      *)
(*  "csv" : [what, orig: <<record>>, back: <<record>>] a record is a        *)
(*           sequence of <<key, value>> string pairs sorted by key          *)
(***************************************************************************)
EXTENDS TextForms, TraceIO
VARIABLE tid

Inst(c) ==
  LET inst == [W |-> c.W, H |-> c.H, items |-> c.items] IN
  (IF ~TokensWellFormed(c.tok) THEN {"compact-string-grammar"}
   ELSE IF c.tok # InstTokens(inst) THEN {"compact-string-not-the-instance"} ELSE {})
  \cup (IF c.name_ok # 1 THEN {"instance-name"} ELSE {})
  \cup (IF c.orig.n_items # SumReps(c.items, 1) \/ c.orig.area # SumArea(c.items, 1) THEN {"derived-attributes"} ELSE {})
  \cup (IF c.ok # 1 THEN {"compact-string-not-parsable"}
        ELSE IF c.back # c.orig THEN
          {"instance-round-trip:" \o
             (IF c.back.items # c.orig.items \/ c.back.W # c.orig.W \/ c.back.H # c.orig.H THEN "data"
              ELSE IF c.back.dtype # c.orig.dtype THEN "dtype"
              ELSE IF c.back.lb # c.orig.lb THEN "lower-bound" ELSE "derived")}
        ELSE {})
\* a 2DPackLib file (written by the driver: "n / W H / id w h [demand]" lines, items in any order) read by
\* Instance.from_2dpacklib must give the instance built directly from the same (sorted) data
PackLib(c) ==
  (IF c.orig.n_items # SumReps(c.items, 1) \/ c.orig.area # SumArea(c.items, 1) THEN {"derived-attributes"} ELSE {})
  \cup (IF c.name_ok # 1 THEN {"instance-name"} ELSE {})
  \cup (IF c.ok # 1 THEN {"2dpacklib-file-not-parsable"}
        ELSE IF c.back # c.orig THEN
          {"2dpacklib-round-trip:" \o
             (IF c.back.items # c.orig.items \/ c.back.W # c.orig.W \/ c.back.H # c.orig.H THEN "data"
              ELSE IF c.back.dtype # c.orig.dtype THEN "dtype"
              ELSE IF c.back.lb # c.orig.lb THEN "lower-bound" ELSE "derived")}
        ELSE {})
Rows(c) ==
  (IF c.tok # Flatten(c.orig) THEN {"text-not-flattened-matrix:" \o c.what} ELSE {})
  \cup (IF c.ok # 1 THEN {"text-not-parsable:" \o c.what}
        ELSE IF c.back # c.orig THEN {"round-trip:" \o c.what} ELSE {})
RecDiff(a, b) ==
  IF Len(a) # Len(b) \/ \E k \in 1..(IF Len(a) < Len(b) THEN Len(a) ELSE Len(b)) : a[k][1] # b[k][1]
  THEN LET ka == {a[k][1] : k \in 1..Len(a)} kb == {b[k][1] : k \in 1..Len(b)} IN
       IF ka # kb THEN "keys:" \o (CHOOSE k \in (ka \ kb) \cup (kb \ ka) : TRUE) ELSE "key-order"
  ELSE LET bad == {k \in 1..Len(a) : a[k][2] # b[k][2]} IN
       IF bad = {} THEN "same" ELSE "value:" \o a[CHOOSE k \in bad : \A j \in bad : k <= j][1]
Csv(c) ==
  IF c.ok # 1 THEN {"csv-not-readable:" \o c.what}
  ELSE IF Len(c.orig) # Len(c.back) THEN {"csv-record-count:" \o c.what}
  ELSE UNION {LET d == RecDiff(c.orig[k], c.back[k]) IN IF d = "same" THEN {} ELSE {"csv-" \o c.what \o "-" \o d}
              : k \in 1..Len(c.orig)}
Verdict(c) == CASE c.kind = "inst" -> Inst(c) [] c.kind = "rows" -> Rows(c) [] c.kind = "csv" -> Csv(c)
                [] c.kind = "packlib" -> PackLib(c)
Init == tid = 0
Next == /\ tid < NCases /\ tid' = tid + 1
        /\ PrintT(<<"V", Cases[tid'].id, Verdict(Cases[tid'])>>)
Spec == Init /\ [][Next]_tid
=============================================================================
