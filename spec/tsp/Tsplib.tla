-------------------------------- MODULE Tsplib --------------------------------
(***************************************************************************)
(* TSPLIB95 as far as moptipyapps reads and writes it:                     *)
(*  - the four explicit edge-weight formats as token streams of a matrix   *)
(*    and their inverse (independent of how tokens are wrapped into lines);*)
(*  - the integer distance functions EUC_2D, CEIL_2D and ATT as exact      *)
(*    predicates on integers (coordinates are given scaled by `sc`, so     *)
(*    decimal coordinates with denominator sc are exact).                  *)
(***************************************************************************)
EXTENDS TSP

Formats == {"FULL_MATRIX", "UPPER_ROW", "LOWER_DIAG_ROW", "UPPER_DIAG_ROW"}

\* index pairs <<i, j>> in the order in which a format lists them
RECURSIVE PairsFrom(_, _, _, _)
PairsFrom(fmt, n, i, j) ==
  IF i > n THEN <<>>
  ELSE LET lo == CASE fmt = "FULL_MATRIX" -> 1 [] fmt = "UPPER_ROW" -> i + 1
                   [] fmt = "LOWER_DIAG_ROW" -> 1 [] fmt = "UPPER_DIAG_ROW" -> i
           hi == CASE fmt = "LOWER_DIAG_ROW" -> i [] OTHER -> n
       IN IF j < lo THEN PairsFrom(fmt, n, i, lo)
          ELSE IF j > hi THEN PairsFrom(fmt, n, i + 1, 0)
          ELSE <<<<i, j>>>> \o PairsFrom(fmt, n, i, j + 1)
PairSeq(fmt, n) == PairsFrom(fmt, n, 1, 0)

TokensOf(fmt, M) == LET ps == PairSeq(fmt, Len(M)) IN [k \in 1..Len(ps) |-> M[ps[k][1]][ps[k][2]]]

\* the matrix a token stream denotes: symmetric completion for the triangular formats,
\* diagonal zero (a TSP instance has no self-distance)
MatrixFrom(fmt, n, toks) ==
  LET ps == PairSeq(fmt, n)
      At(i, j) == toks[CHOOSE k \in 1..Len(ps) : ps[k] = <<i, j>>]
      Has(i, j) == \E k \in 1..Len(ps) : ps[k] = <<i, j>>
  IN [i \in 1..n |-> [j \in 1..n |->
        IF i = j THEN 0 ELSE IF Has(i, j) THEN At(i, j) ELSE At(j, i)]]

\* ---- distance predicates; s = squared distance scaled by sc*sc, d = the claimed distance
SqDist(p, q) == (p[1] - q[1]) * (p[1] - q[1]) + (p[2] - q[2]) * (p[2] - q[2])
\* nint(sqrt(s)) = d  <=>  d - 1/2 <= sqrt(s) < d + 1/2
Euc2D(d, s, sc) == IF d = 0 THEN 4 * s < sc * sc
                   ELSE (2 * d - 1) * (2 * d - 1) * sc * sc <= 4 * s /\ 4 * s < (2 * d + 1) * (2 * d + 1) * sc * sc
\* ceil(sqrt(s)) = d
Ceil2D(d, s, sc) == IF d = 0 THEN s = 0
                    ELSE (d - 1) * (d - 1) * sc * sc < s /\ s <= d * d * sc * sc
\* ATT: r = sqrt(s/10), t = nint(r), d = t+1 if t < r else t   <=>  d = ceil(r)
Att(d, s, sc) == IF d = 0 THEN s = 0
                 ELSE 10 * (d - 1) * (d - 1) * sc * sc < s /\ s <= 10 * d * d * sc * sc
DistOK(ewt, d, s, sc) == CASE ewt = "EUC_2D" -> Euc2D(d, s, sc)
                           [] ewt = "CEIL_2D" -> Ceil2D(d, s, sc)
                           [] ewt = "ATT" -> Att(d, s, sc)
=============================================================================
