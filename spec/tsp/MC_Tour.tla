------------------------------- MODULE MC_Tour -------------------------------
(* Design of the instance's own bounds: for every matrix (zero diagonal, a positive entry per *)
(* row; symmetric or not) and every tour, NearSum <= length <= FarSum - natively and in BigNat. *)
EXTENDS TSP, TLC
CONSTANTS N, MaxDist
VARIABLES M, x
vars == <<M, x>>
Mats == {m \in [1..N -> [1..N -> 0..MaxDist]] :
           \A i \in 1..N : m[i][i] = 0 /\ \E j \in 1..N : m[i][j] > 0}
Perms == {p \in [1..N -> 1..N] : \A a \in 1..N : \E k \in 1..N : p[k] = a}
Init == M \in Mats /\ x \in Perms
Spec == Init /\ [][UNCHANGED vars]_vars
BM == [i \in 1..N |-> [j \in 1..N |-> BOfNat(M[i][j])]]
BoundsEnclose == NearSum(M) <= TourLen(M, x) /\ TourLen(M, x) <= FarSum(M)
BigAgrees == /\ BTourLen(BM, x) = BOfNat(TourLen(M, x))
             /\ BFarSum(BM) = BOfNat(FarSum(M)) /\ BNearSum(BM) = BOfNat(NearSum(M))
=============================================================================
