------------------------------ MODULE Trace_TSP ------------------------------
(***************************************************************************)
(* Validation of recorded TSP executions.                                  *)
(* Prop = "C05": [n, M, stored, sym, lb, ub, tours: <<[x, len]>>]          *)
(*    M, stored: matrices of BigNat limbs (given vs. stored by the         *)
(*    instance); lb, ub, len BigNat; x a permutation of 1..n.              *)
(* Prop = "C06": [n, M, algo, ub, steps: <<[x, y]>>, hidx]                  *)
(*    M native symmetric; steps = the pairs handed to the process in       *)
(*    order (first = initial evaluation); hidx = frequency-table indices   *)
(*    observed to be written (kernel-level cases), may be empty.           *)
(* Verdicts are sets of violated clause names.                             *)
(***************************************************************************)
EXTENDS TSP, TraceIO
CONSTANT Prop
VARIABLE tid

BSym(M) == \A i \in 1..Len(M) : \A j \in 1..Len(M) : M[i][j] = M[j][i]

C05Tour(c, t) ==
  IF ~IsPerm(t.x, c.n) THEN {"driver-bad-permutation"}
  ELSE LET L == BTourLen(c.M, t.x) IN
    (IF t.len # L THEN {"not-cyclic-edge-sum"} ELSE {})
    \cup (IF ~BLe(c.lb, L) THEN {"true-length-below-declared-lower-bound"} ELSE {})
    \cup (IF ~BLe(L, c.ub) THEN {"true-length-above-declared-upper-bound"} ELSE {})
VerdictC05(c) ==
  (IF c.stored # c.M THEN {"stored-matrix-differs"} ELSE {})
  \cup (IF (c.sym = 1) # BSym(c.M) THEN {"symmetry-flag"} ELSE {})
  \cup UNION {C05Tour(c, c.tours[k]) : k \in 1..Len(c.tours)}

C06Step(c, k) ==
  LET s == c.steps[k] IN
  IF ~IsPerm(s.x, c.n) THEN {"not-a-permutation"}
  ELSE (IF s.y # TourLen(c.M, s.x) THEN {"reported-length-not-exact"} ELSE {})
       \cup (IF c.algo = "ea" /\ k > 1 /\ IsPerm(c.steps[k - 1].x, c.n)
                /\ TourLen(c.M, s.x) > TourLen(c.M, c.steps[k - 1].x)
             THEN {"ea-accepted-longer-tour"} ELSE {})
VerdictC06(c) ==
  IF ~(ValidMatrix(c.M) /\ Symmetric(c.M)) THEN {"driver-bad-matrix"}
  ELSE UNION {C06Step(c, k) : k \in 1..Len(c.steps)}
       \cup (IF \E k \in 1..Len(c.hidx) : c.hidx[k] < 0 \/ c.hidx[k] > FarSum(c.M)
             THEN {"frequency-index-outside-0..upper-bound"} ELSE {})
       \* a run that logs its frequency table (hidx = the lengths the logged table names): every length the run
       \* was at has been counted
       \cup (IF "log_h" \in DOMAIN c /\ c.log_h = 1 /\ Len(c.hidx) > 0
                /\ \E k \in 1..Len(c.steps) : \A q \in 1..Len(c.hidx) : c.hidx[q] # c.steps[k].y
             THEN {"logged-frequency-table-misses-a-visited-length"} ELSE {})
       \cup (IF c.ub # FarSum(c.M) /\ c.ub < SetMax({TourLen(c.M, c.steps[k].x) : k \in
                        {q \in 1..Len(c.steps) : IsPerm(c.steps[q].x, c.n)}} \cup {0})
             THEN {"tour-longer-than-instance-upper-bound"} ELSE {})

\* the EA on distances far beyond 32 bits (the FEA cannot run there: its table has one entry per possible length):
\* the same two clauses in BigNat arithmetic.  [n, M: BigNat matrix, steps: <<[x, y: BigNat]>>, big = 1]
C06BigStep(c, k) ==
  LET s == c.steps[k] IN
  IF ~IsPerm(s.x, c.n) THEN {"not-a-permutation"}
  ELSE (IF s.y # BTourLen(c.M, s.x) THEN {"reported-length-not-exact"} ELSE {})
       \cup (IF k > 1 /\ IsPerm(c.steps[k - 1].x, c.n)
                /\ ~BLe(BTourLen(c.M, s.x), BTourLen(c.M, c.steps[k - 1].x))
             THEN {"ea-accepted-longer-tour"} ELSE {})
VerdictC06Big(c) == UNION {C06BigStep(c, k) : k \in 1..Len(c.steps)}
Verdict(c) == IF Prop = "C05" THEN VerdictC05(c)
              ELSE IF "big" \in DOMAIN c /\ c.big = 1 THEN VerdictC06Big(c) ELSE VerdictC06(c)

Init == tid = 0
Next == /\ tid < NCases /\ tid' = tid + 1
        /\ PrintT(<<"V", Cases[tid'].id, Verdict(Cases[tid'])>>)
Spec == Init /\ [][Next]_tid
=============================================================================
