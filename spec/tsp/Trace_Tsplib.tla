----------------------------- MODULE Trace_Tsplib -----------------------------
(***************************************************************************)
(* Validation of recorded loader / writer executions (C18).  Case kinds:   *)
(*  "explicit" : [n, fmt, M, tokens, loaded]  a matrix written by the      *)
(*               driver in one of the four formats, with some wrapping     *)
(*  "roundtrip": [n, M, fmt, tokens, loaded, name_ok, sym_in, sym_out]     *)
(*               text produced by Instance.to_stream, parsed back          *)
(*  "scaled"   : [what, n, fmt, M, tokens, bscale, loadedB, ok, div_ok]     *)
(*  "coords"   : [ewt, sc, pts, loaded]  points scaled by sc               *)
(*  "tour"     : [n, tour, edges, opt]   a shipped optimal tour, the loaded *)
(*               weights along it, and the documented optimum              *)
(***************************************************************************)
EXTENDS Tsplib, TraceIO
VARIABLE tid

\* D is the matrix as written into the file: like M, but the formats that list the diagonal may carry
\* arbitrary numbers there (TSPLIB files often do); the loaded matrix must still be M (zero diagonal)
Explicit(c) ==
  (IF c.tokens # TokensOf(c.fmt, c.D) \/ \E i \in 1..c.n : \E j \in 1..c.n : i # j /\ c.D[i][j] # c.M[i][j]
   THEN {"driver-bad-tokens"} ELSE {})
  \cup (IF c.loaded # MatrixFrom(c.fmt, c.n, c.tokens) \/ c.loaded # c.M THEN {"explicit-format:" \o c.fmt} ELSE {})

RoundTrip(c) ==
  (IF c.fmt \notin Formats THEN {"writer-unknown-format"}
   ELSE (IF c.tokens # TokensOf(c.fmt, c.M) THEN {"written-tokens-not-in-format:" \o c.fmt} ELSE {}))
  \cup (IF c.loaded # c.M THEN {"write-read-matrix"} ELSE {})
  \cup (IF c.name_ok # 1 THEN {"write-read-name"} ELSE {})
  \cup (IF c.sym_in # c.sym_out THEN {"write-read-symmetry-flag"} ELSE {})
  \cup (IF (c.sym_in = 1) # Symmetric(c.M) THEN {"symmetry-flag"} ELSE {})

\* GEO distances need cos / acos and are out of TLC's reach - except between two cities with the SAME coordinates:
\* TSPLIB95 prescribes (int)(RRR * acos(0.5 * ((1 + q1) * q2 - (1 - q1) * q3)) + 1.0) with q1 = q2 = 1, i.e. acos(1) = 0
\* and the distance 1 (not 0).
GeoCoincident(c) ==
  LET n == Len(c.pts)
      bad == {p \in (1..n) \X (1..n) : p[1] # p[2] /\ c.pts[p[1]] = c.pts[p[2]] /\ c.loaded[p[1]][p[2]] # 1}
  IN IF bad # {} THEN {"distance:GEO(coinciding-cities-are-1-apart)"} ELSE {}
Coords(c) ==
  IF c.ewt = "GEO" THEN GeoCoincident(c) ELSE
  LET n == Len(c.pts)
      bad == {p \in (1..n) \X (1..n) :
                p[1] # p[2] /\ ~DistOK(c.ewt, c.loaded[p[1]][p[2]], SqDist(c.pts[p[1]], c.pts[p[2]]), c.sc)}
  IN IF bad # {} THEN {"distance:" \o c.ewt} ELSE {}

Tour(c) ==
  IF ~IsPerm(c.tour, c.n) THEN {"tour-not-a-permutation"}
  ELSE IF Len(c.edges) # c.n THEN {"driver-bad-edges"}
  ELSE IF SumTo(c.edges, c.n) # c.opt THEN {"tour-length-not-documented-optimum"} ELSE {}

\* weights far beyond 32 bits (the library admits up to 10^12): the file holds scale * (the tokens of a small matrix
\* M in format fmt); what is loaded must be scale * M entry by entry (BigNat).  what = "explicit": tokens written by
\* the driver; what = "roundtrip": tokens written by Instance.to_stream for the instance built from scale * M
\* (divided by the scale again; div_ok = 0 if a written token was not a multiple of the scale)
Scaled(c) ==
  (IF c.ok # 1 THEN {"loader-rejects-valid-text:" \o c.fmt \o "(large-weights)"}
   ELSE IF c.fmt \notin Formats THEN {"writer-unknown-format"}
   ELSE (IF c.div_ok # 1 \/ c.tokens # TokensOf(c.fmt, c.M)
         THEN {IF c.what = "explicit" THEN "driver-bad-tokens" ELSE "written-tokens-not-in-format:" \o c.fmt} ELSE {})
        \cup (IF c.loadedB # [i \in 1..c.n |-> [j \in 1..c.n |-> BMul(c.bscale, BOfNat(c.M[i][j]))]]
              THEN {IF c.what = "explicit" THEN "explicit-format:" \o c.fmt \o "(large-weights)" ELSE "write-read-matrix(large-weights)"}
              ELSE {}))
Verdict(c) == CASE c.kind = "explicit" -> Explicit(c) [] c.kind = "roundtrip" -> RoundTrip(c)
                [] c.kind = "scaled" -> Scaled(c)
                [] c.kind = "coords" -> Coords(c) [] c.kind = "tour" -> Tour(c)

Init == tid = 0
Next == /\ tid < NCases /\ tid' = tid + 1
        /\ PrintT(<<"V", Cases[tid'].id, Verdict(Cases[tid'])>>)
Spec == Init /\ [][Next]_tid
=============================================================================
