------------------------------- MODULE RevMove -------------------------------
(***************************************************************************)
(* The reversal-based (1+1) EA and (1+1) FEA on a symmetric instance as a  *)
(* state machine: the current tour x, its incrementally maintained length  *)
(* y and (FEA) the frequency table h.  One action per loop iteration:      *)
(* Move(i, j) with 0 <= i < j <= n-2 (0-based, as drawn by the algorithms),*)
(* (0, n-2) excluded.  TLC checks that y is always the exact tour length,  *)
(* x stays a permutation, the EA never gets longer and every table index   *)
(* lies in 0..FarSum(M).                                                   *)
(***************************************************************************)
EXTENDS TSP, TLC
CONSTANTS N, MaxDist, Depth, Algo   \* Algo = "ea" | "fea"
VARIABLES M, x, y, h, steps, last
vars == <<M, x, y, h, steps, last>>

SymMats == {m \in [1..N -> [1..N -> 0..MaxDist]] :
              /\ \A i \in 1..N : m[i][i] = 0 /\ \E j \in 1..N : m[i][j] > 0
              /\ \A i \in 1..N : \A j \in 1..N : m[i][j] = m[j][i]}
Perms == {p \in [1..N -> 1..N] : \A a \in 1..N : \E k \in 1..N : p[k] = a}

Init == /\ M \in SymMats /\ x \in Perms /\ y = TourLen(M, x)
        /\ h = [v \in 0..FarSum(M) |-> 0] /\ steps = 0 /\ last = <<0, 0, 0>>

\* 0-based index pairs the algorithms can draw and do not skip
Pairs == {p \in (0..(N - 2)) \X (0..(N - 2)) : p[1] < p[2] /\ ~(p[1] = 0 /\ p[2] = N - 2)}

MoveEA(i, j) ==
  LET dy == Delta(M, x, i + 1, j + 1) IN
  /\ IF dy <= 0 THEN x' = Rev(x, i + 1, j + 1) /\ y' = y + dy ELSE UNCHANGED <<x, y>>
  /\ UNCHANGED h /\ last' = <<i, j, y + dy>>

MoveFEA(i, j) ==
  LET dy == Delta(M, x, i + 1, j + 1)
      y2 == y + dy
      h1 == [h EXCEPT ![y] = @ + 1]
      h2 == [h1 EXCEPT ![y2] = @ + 1]     \* applying h outside its domain is a TLC error
  IN /\ h' = h2
     /\ IF h2[y2] <= h2[y] THEN x' = Rev(x, i + 1, j + 1) /\ y' = y2 ELSE UNCHANGED <<x, y>>
     /\ last' = <<i, j, y2>>

Next == /\ steps < Depth /\ steps' = steps + 1 /\ UNCHANGED M
        /\ \E p \in Pairs : IF Algo = "ea" THEN MoveEA(p[1], p[2]) ELSE MoveFEA(p[1], p[2])
Spec == Init /\ [][Next]_vars

ExactLength == y = TourLen(M, x)
StaysPerm == IsPerm(x, N)
\* the candidate length computed in O(1) is the true length of the reversed tour
DeltaExact == \A p \in Pairs :
                TourLen(M, Rev(x, p[1] + 1, p[2] + 1)) = y + Delta(M, x, p[1] + 1, p[2] + 1)
WithinBounds == NearSum(M) <= y /\ y <= FarSum(M)
TableIdx == last[3] \in 0..FarSum(M)
EAMonotone == [][Algo = "ea" => y' <= y]_vars
=============================================================================
