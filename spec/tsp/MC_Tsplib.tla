------------------------------ MODULE MC_Tsplib ------------------------------
(* The four explicit formats are mutually consistent: for every symmetric matrix (all matrices  *)
(* for FULL_MATRIX) the tokens a format lists denote that matrix again; and the distance        *)
(* predicates single out exactly one distance for every squared distance of the scope.          *)
EXTENDS Tsplib, TLC
CONSTANTS N, MaxDist, MaxSq
VARIABLES M, fmt
vars == <<M, fmt>>
Mats == {m \in [1..N -> [1..N -> 0..MaxDist]] : \A i \in 1..N : m[i][i] = 0}
Init == M \in Mats /\ fmt \in Formats
Spec == Init /\ [][UNCHANGED vars]_vars
RoundTrip == (fmt = "FULL_MATRIX" \/ Symmetric(M)) => MatrixFrom(fmt, N, TokensOf(fmt, M)) = M
TokenCount == Len(TokensOf(fmt, M)) =
                CASE fmt = "FULL_MATRIX" -> N * N [] fmt = "UPPER_ROW" -> (N * (N - 1)) \div 2
                  [] OTHER -> N + (N * (N - 1)) \div 2
\* exactly one distance satisfies each predicate (scale 1 and 4)
Unique == \A ewt \in {"EUC_2D", "CEIL_2D", "ATT"} : \A sc \in {1, 4} : \A s \in 0..MaxSq :
            Cardinality({d \in 0..(MaxSq + 1) : DistOK(ewt, d, s, sc)}) = 1
=============================================================================
