--------------------------------- MODULE TSP ---------------------------------
(***************************************************************************)
(* Tours, tour length, the instance's own bounds and the reversal move.    *)
(* Cities are 1..n; a distance matrix M is a sequence of rows.             *)
(* Two arithmetic flavours: native integers (small values, used by the     *)
(* move machine) and BigNat limb sequences (entries up to 10^12, used for  *)
(* the objective).                                                         *)
(***************************************************************************)
EXTENDS Naturals, Integers, Sequences, FiniteSets, BigNat

SetMax(S) == CHOOSE m \in S : \A o \in S : m >= o
SetMin(S) == CHOOSE m \in S : \A o \in S : m <= o

IsPerm(x, n) == Len(x) = n /\ {x[i] : i \in 1..n} = 1..n
Succ(i, n) == IF i = n THEN 1 ELSE i + 1
Pred(i, n) == IF i = 1 THEN n ELSE i - 1

\* ---- native
RECURSIVE SumTo(_, _)
SumTo(f, k) == IF k = 0 THEN 0 ELSE f[k] + SumTo(f, k - 1)
TourLen(M, x) == LET n == Len(x) IN SumTo([i \in 1..n |-> M[x[i]][x[Succ(i, n)]]], n)
RowMax(M, i) == SetMax({M[i][j] : j \in (1..Len(M)) \ {i}})
RowMin(M, i) == SetMin({M[i][j] : j \in (1..Len(M)) \ {i}})
FarSum(M) == SumTo([i \in 1..Len(M) |-> RowMax(M, i)], Len(M))
NearSum(M) == SumTo([i \in 1..Len(M) |-> RowMin(M, i)], Len(M))
Symmetric(M) == \A i \in 1..Len(M) : \A j \in 1..Len(M) : M[i][j] = M[j][i]
ValidMatrix(M) == /\ Len(M) >= 2
                  /\ \A i \in 1..Len(M) : /\ Len(M[i]) = Len(M) /\ M[i][i] = 0
                                          /\ \A j \in 1..Len(M) : M[i][j] >= 0
                                          /\ RowMax(M, i) > 0

\* reversal of positions i..j (1-based, i < j)
Rev(x, i, j) == [k \in 1..Len(x) |-> IF k >= i /\ k <= j THEN x[i + j - k] ELSE x[k]]
\* the O(1) length difference the algorithms use
Delta(M, x, i, j) ==
  LET n == Len(x) a == x[Pred(i, n)] b == x[i] c == x[j] d == x[Succ(j, n)]
  IN M[a][c] + M[b][d] - M[a][b] - M[c][d]

\* ---- BigNat (M entries are limb sequences)
RECURSIVE BSumTo(_, _)
BSumTo(f, k) == IF k = 0 THEN <<>> ELSE BAdd(f[k], BSumTo(f, k - 1))
BTourLen(M, x) == LET n == Len(x) IN BSumTo([i \in 1..n |-> M[x[i]][x[Succ(i, n)]]], n)
BSetMax(S) == CHOOSE m \in S : \A o \in S : BLe(o, m)
BSetMin(S) == CHOOSE m \in S : \A o \in S : BLe(m, o)
BFarSum(M) == BSumTo([i \in 1..Len(M) |-> BSetMax({M[i][j] : j \in (1..Len(M)) \ {i}})], Len(M))
BNearSum(M) == BSumTo([i \in 1..Len(M) |-> BSetMin({M[i][j] : j \in (1..Len(M)) \ {i}})], Len(M))
=============================================================================
