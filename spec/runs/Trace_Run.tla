------------------------------- MODULE Trace_Run -------------------------------
(***************************************************************************)
(* Recorded runs of bundled experiment setups (C12).  A case:              *)
(*  [max_fes, fes, best: F64, evals: <<F64>>, evals2: <<F64>> (replica),    *)
(*   same_solution: 0/1, fresh: F64 (fresh objective on the logged          *)
(*   solution), feasible: 0/1/-1 (-1: judged by a domain trace spec),       *)
(*   parsed: 0/1/-1 (log parsing agrees; -1 n/a)]                           *)
(* evals are the objective values in call order (observed by a recording   *)
(* subclass); the first `fes` of them were budgeted.                        *)
(***************************************************************************)
EXTENDS F64, TraceIO, Sequences, FiniteSets
VARIABLE tid

Verdict(c) ==
  LET n == Len(c.evals) IN
  (IF c.fes > c.max_fes THEN {"more-evaluations-than-budget"} ELSE {})
  \cup (IF c.observed_all = 0 THEN {}      \* algorithm registers (x, f) pairs itself: evaluations not observable
        ELSE IF n < c.fes THEN {"driver-missing-evaluations"}
        ELSE (IF \E i \in (c.fes + 1)..n : ~FSame(c.evals[i], c.best) THEN {"evaluation-after-budget-not-of-best"} ELSE {})
             \cup (IF c.fes >= 1 /\ (\E i \in 1..c.fes : FLt(c.evals[i], c.best)) THEN {"best-not-minimum"} ELSE {})
             \cup (IF c.fes >= 1 /\ ~(\E i \in 1..c.fes : FSame(c.evals[i], c.best)) THEN {"best-never-evaluated"} ELSE {}))
  \cup (IF Len(c.evals2) # n \/ \E i \in 1..(IF Len(c.evals2) < n THEN Len(c.evals2) ELSE n) : ~FSame(c.evals[i], c.evals2[i])
        THEN {"replica-evaluations-differ"} ELSE {})
  \cup (IF c.same_solution # 1 THEN {"replica-solution-differs"} ELSE {})
  \cup (IF ~FSame(c.fresh, c.best) THEN {"logged-best-differs-from-fresh-evaluation"} ELSE {})
  \cup (IF c.feasible = 0 THEN {"final-solution-infeasible"} ELSE {})
  \cup (IF c.parsed = 0 THEN {"parsed-log-differs"} ELSE {})
  \* ended = 0: the process rejected its own final solution (or the code under test raised) when the run ended
  \cup (IF "ended" \in DOMAIN c /\ c.ended # 1 THEN {"run-does-not-end-normally"} ELSE {})

Init == tid = 0
Next == /\ tid < NCases /\ tid' = tid + 1
        /\ PrintT(<<"V", Cases[tid'].id, Verdict(Cases[tid'])>>)
Spec == Init /\ [][Next]_tid
=============================================================================
