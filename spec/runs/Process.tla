-------------------------------- MODULE Process --------------------------------
(***************************************************************************)
(* A black-box optimisation run under an evaluation budget: the process    *)
(* counts objective evaluations, remembers the best value, refuses work    *)
(* after the budget, and may re-evaluate the remembered best solution once *)
(* the search is over (moptipy does this when it writes the log).          *)
(* Values are abstract naturals (order is all that matters).               *)
(***************************************************************************)
EXTENDS Naturals, Sequences, TLC
CONSTANTS MaxFEs, Vals
VARIABLES fes, best, over, evals
vars == <<fes, best, over, evals>>
None == 999
Init == fes = 0 /\ best = None /\ over = FALSE /\ evals = <<>>
Evaluate(v) == /\ ~over /\ fes < MaxFEs
               /\ fes' = fes + 1 /\ evals' = Append(evals, v)
               /\ best' = IF best = None \/ v < best THEN v ELSE best
               /\ over' = (fes + 1 = MaxFEs)
Stop == ~over /\ fes >= 1 /\ over' = TRUE /\ UNCHANGED <<fes, best, evals>>
ReEvaluateBest == over /\ evals' = Append(evals, best) /\ Len(evals) = fes /\ UNCHANGED <<fes, best, over>>
Next == (\E v \in Vals : Evaluate(v)) \/ Stop \/ ReEvaluateBest
Spec == Init /\ [][Next]_vars
WithinBudget == fes <= MaxFEs
BestIsMin == fes >= 1 => (best = evals[1] \/ \E i \in 1..fes : best = evals[i]) /\ \A i \in 1..fes : best <= evals[i]
ExtraOnlyBest == \A i \in (fes + 1)..Len(evals) : evals[i] = best
=============================================================================
