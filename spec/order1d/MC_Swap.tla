------------------------------- MODULE MC_Swap -------------------------------
(***************************************************************************)
(* The transposition graph: nodes are the permutations of 0..N-1, edges    *)
(* exchange two positions.  cur is reached from start with d swaps; the    *)
(* least d over all states with the same (start, cur) is the minimum       *)
(* number of transpositions (taken from the dump).  TLC checks the         *)
(* classical theorem on the whole graph: no state is reached with fewer    *)
(* swaps than N minus the number of cycles, and that many always suffice.  *)
(***************************************************************************)
EXTENDS Order1D, TLC
CONSTANTS N, AllStarts
VARIABLES start, cur, d
vars == <<start, cur, d>>
Perms == {p \in [1..N -> 0..(N - 1)] : \A a \in 0..(N - 1) : \E k \in 1..N : p[k] = a}
Identity == [i \in 1..N |-> i - 1]
Init == start \in (IF AllStarts THEN Perms ELSE {Identity}) /\ cur = start /\ d = 0
Next == /\ d < N - 1 /\ d' = d + 1 /\ UNCHANGED start
        /\ \E a \in 1..N : \E b \in (a + 1)..N : cur' = SwapAt(cur, a, b)
Spec == Init /\ [][Next]_vars
NeverFewer == d >= CycleDistance(start, cur)
\* every permutation is reached with exactly its cycle distance (checked from the dump as well)
Symmetric == CycleDistance(start, cur) = CycleDistance(cur, start)
=============================================================================
