------------------------------- MODULE Order1D -------------------------------
(***************************************************************************)
(* One-dimensional ordering instances and the swap distance.               *)
(*  dm : the pairwise distances of the ORIGINAL objects (a pseudo-metric   *)
(*       with integer values; float distances enter only through their     *)
(*       order, so the driver hands over order-preserving integers)        *)
(***************************************************************************)
EXTENDS Naturals, Integers, Sequences, FiniteSets

Abs(v) == IF v < 0 THEN -v ELSE v
SetMin(S) == CHOOSE m \in S : \A o \in S : m <= o

\* ---- zero-distance classes
\* the representative of object k: the first object at distance zero from it
RepOf(dm, k) == SetMin({j \in 1..Len(dm) : dm[j][k] = 0})
Reps(dm) == {RepOf(dm, k) : k \in 1..Len(dm)}
\* 0-based index of a representative among the kept objects (order of first occurrence)
RepIndex(dm, r) == Cardinality({q \in Reps(dm) : q < r})
NKept(dm) == Cardinality(Reps(dm))
\* the k-th kept object (1-based)
KeptAt(dm, k) == CHOOSE r \in Reps(dm) : RepIndex(dm, r) = k - 1
\* distances between kept objects
KeptDist(dm) == [i \in 1..NKept(dm) |-> [j \in 1..NKept(dm) |-> dm[KeptAt(dm, i)][KeptAt(dm, j)]]]

PseudoMetricZero(dm) == \A a \in 1..Len(dm) : \A b \in 1..Len(dm) : \A c \in 1..Len(dm) :
   /\ dm[a][a] = 0 /\ dm[a][b] = dm[b][a] /\ dm[a][b] >= 0
   /\ (dm[a][b] = 0 => dm[a][c] = dm[b][c])

\* ---- ranks: twice the average rank of j among the neighbours of i (1 = nearest)
Rank2(R, i, j) == LET O == (1..Len(R)) \ {i} IN
  2 * Cardinality({k \in O : R[i][k] < R[i][j]}) + Cardinality({k \in O : R[i][k] = R[i][j]}) + 1

\* the clauses the statement makes about the flow matrix fl for kept distances R and horizon hz
FlowClauses(R, fl, hz) ==
  LET n == Len(R) IN
  (IF \E i \in 1..n : fl[i][i] # 0 THEN {"flow-on-diagonal"} ELSE {})
  \cup (IF \E i \in 1..n : \E j \in 1..n : i # j /\ Rank2(R, i, j) > 2 * hz /\ fl[i][j] # 0
        THEN {"flow-beyond-horizon"} ELSE {})
  \cup (IF \E i \in 1..n : \E j \in 1..n : \E k \in 1..n :
             i # j /\ i # k /\ R[i][j] = R[i][k] /\ fl[i][j] # fl[i][k]
        THEN {"equal-distance-different-flow"} ELSE {})
  \cup (IF \E i \in 1..n : \E j \in 1..n : \E k \in 1..n :
             i # j /\ i # k /\ R[i][j] < R[i][k] /\ fl[i][j] < fl[i][k]
        THEN {"nearer-neighbour-smaller-flow"} ELSE {})
  \cup (IF \E i \in 1..n : \E j \in 1..n : fl[i][j] < 0 THEN {"negative-flow"} ELSE {})

\* ---- swap distance
IsPerm0(p) == {p[i] : i \in 1..Len(p)} = 0..(Len(p) - 1)      \* permutations of 0..n-1
SwapAt(p, a, b) == [p EXCEPT ![a] = p[b], ![b] = p[a]]
\* n minus the number of cycles of the mapping p1[i] -> p2[i]
InvAt(p, v) == CHOOSE i \in 1..Len(p) : p[i] = v
MapTo(p1, p2) == [v \in 0..(Len(p1) - 1) |-> p2[InvAt(p1, v)]]
RECURSIVE Orbit(_, _, _)
Orbit(f, v, acc) == IF f[v] \in acc THEN acc ELSE Orbit(f, f[v], acc \cup {f[v]})
Cycles(f) == {Orbit(f, v, {v}) : v \in DOMAIN f}
CycleDistance(p1, p2) == Len(p1) - Cardinality(Cycles(MapTo(p1, p2)))
=============================================================================
