------------------------------ MODULE Trace_Order ------------------------------
(***************************************************************************)
(* Recorded executions of the ordering package (C20).  Case kinds:         *)
(*  "inst": [dm, hz, n, horizon, tags: <<[obj, idx]>>, dist, flows]        *)
(*          dm = distances of the original objects (objects are 1..Len(dm)),*)
(*          hz = requested horizon; the rest is what the instance reports  *)
(*  "big":  [nexp, n, hz, horizon, dist, flows]  many distinct objects      *)
(*  "swap": [pairs: <<[p1, p2, sd]>>]  swap_distance results               *)
(***************************************************************************)
EXTENDS Order1D, TraceIO
VARIABLE tid

Inst(c) ==
  IF ~PseudoMetricZero(c.dm) THEN {"driver-not-a-pseudo-metric"}
  ELSE LET R == KeptDist(c.dm) n == NKept(c.dm) IN
    (IF c.n # n THEN {"zero-distance-objects-not-merged"} ELSE {})
    \cup (IF c.n = n /\ (Len(c.tags) # Len(c.dm)
              \/ \E k \in 1..Len(c.dm) :
                   Cardinality({t \in 1..Len(c.tags) : c.tags[t].obj = k}) # 1
              \/ \E t \in 1..Len(c.tags) : c.tags[t].obj \in 1..Len(c.dm) /\
                   c.tags[t].idx # RepIndex(c.dm, RepOf(c.dm, c.tags[t].obj)))
          THEN {"representative-index"} ELSE {})
    \cup (IF c.n = n /\ c.dist # [i \in 1..n |-> [j \in 1..n |-> Abs(i - j)]] THEN {"distance-not-|i-j|"} ELSE {})
    \cup (IF c.n = n /\ c.horizon # (IF c.hz < n - 1 THEN c.hz ELSE n - 1) THEN {"reported-horizon"} ELSE {})
    \cup (IF c.n = n THEN FlowClauses(R, c.flows, c.hz) ELSE {})

Swap(c) == UNION {LET e == c.pairs[k] IN
                  IF ~(IsPerm0(e.p1) /\ IsPerm0(e.p2) /\ Len(e.p1) = Len(e.p2)) THEN {"driver-bad-permutation"}
                  ELSE IF e.sd # CycleDistance(e.p1, e.p2) THEN {"swap-distance-not-minimal"} ELSE {}
                  : k \in 1..Len(c.pairs)}

\* many pairwise distinct objects (the complete clauses above are too expensive for TLC beyond ~30 objects):
\* nothing is merged, the position distances are |i - j|, the horizon is the requested one
Big(c) ==
  (IF c.n # c.nexp THEN {"zero-distance-objects-not-merged"} ELSE {})
  \cup (IF c.dist # [i \in 1..c.n |-> [j \in 1..c.n |-> Abs(i - j)]] THEN {"distance-not-|i-j|"} ELSE {})
  \cup (IF c.horizon # (IF c.hz < c.n - 1 THEN c.hz ELSE c.n - 1) THEN {"reported-horizon"} ELSE {})
  \cup (IF \E i \in 1..c.n : c.flows[i][i] # 0 THEN {"flow-on-diagonal"} ELSE {})
Verdict(c) == IF c.kind = "inst" THEN Inst(c) ELSE IF c.kind = "big" THEN Big(c) ELSE Swap(c)
Init == tid = 0
Next == /\ tid < NCases /\ tid' = tid + 1
        /\ PrintT(<<"V", Cases[tid'].id, Verdict(Cases[tid'])>>)
Spec == Init /\ [][Next]_tid
=============================================================================
