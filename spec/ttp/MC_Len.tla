-------------------------------- MODULE MC_Len --------------------------------
(***************************************************************************)
(* The travel-length MODEL on all small inputs: every distance matrix with *)
(* entries 0..MaxDist (zero diagonal) and every plan of D days whose days  *)
(* are consistent pairings of a subset of the N teams (the others have a   *)
(* bye).  TLC checks that the model respects the declared bounds and that  *)
(* replacing any game by a bye strictly increases the length - i.e. that   *)
(* the penalty 2*max+1 is large enough, for asymmetric matrices too.       *)
(***************************************************************************)
EXTENDS TTP, TLC
CONSTANTS N, D, MaxDist
VARIABLES M, plan
vars == <<M, plan>>

\* all matrices for N <= 3; for larger N the circulant ones m[i][j] = r[(j - i) mod N] (asymmetric in
\* general) - enumerating all 3^(N*N-N) matrices is out of reach and adds nothing to the argument
AllMats == {m \in [1..N -> [1..N -> 0..MaxDist]] : \A i \in 1..N : m[i][i] = 0}
Circulant == {[i \in 1..N |-> [j \in 1..N |-> IF i = j THEN 0 ELSE r[((j - i) + N) % N]]] :
                r \in [1..(N - 1) -> 0..MaxDist]}
Mats == IF N <= 3 THEN AllMats ELSE Circulant
DaysWithByes ==
  {day \in [1..N -> (-N)..N] :
     \A t \in 1..N : /\ Abs(day[t]) # t
                     /\ (day[t] > 0 => day[day[t]] = -t)
                     /\ (day[t] < 0 => day[-day[t]] = t)}
Init == M \in Mats /\ plan \in [1..D -> DaysWithByes]
Spec == Init /\ [][UNCHANGED vars]_vars

L == PlanLength(plan, M)
Bounds == 0 <= L /\ L <= LengthUpperBound(plan, M)
Games == {p \in (1..D) \X (1..N) : plan[p[1]][p[2]] # 0}
ByeClause == \A p \in Games : PlanLength(WithBye(plan, p[1], p[2]), M) > L
\* the length is additive in byes: a plan without games costs exactly N*D penalties
ByeValue == (Games = {}) => L = N * D * ByePenalty(M)
=============================================================================
