------------------------------- MODULE MC_Games -------------------------------
(***************************************************************************)
(* The game-permutation decoder as a step machine: games are taken from    *)
(* the sequence x one at a time and put on the earliest day on which both  *)
(* teams are free (or dropped).  x ranges over ALL sequences of L valid    *)
(* game codes (a superset of the permutations of any blueprint).  TLC      *)
(* checks after every step that the partial plan is mutually consistent,   *)
(* contains no game more often than x does, and that the final plan is the *)
(* functional form GamePlanOf.  Terminal states are replayed into the real *)
(* decoder.                                                                *)
(***************************************************************************)
EXTENDS TTP, TLC
CONSTANTS N, DaysC, L
VARIABLES x, k, plan
vars == <<x, k, plan>>

Codes == 0..(N * (N - 1) - 1)
Init == x \in [1..L -> Codes] /\ k = 1 /\ plan = EmptyPlan(DaysC, N)
Step == /\ k <= L /\ plan' = PlaceGame(plan, N, x[k]) /\ k' = k + 1 /\ UNCHANGED x
Spec == Init /\ [][Step]_vars

Prefix == SubSeq(x, 1, k - 1)
StepOK == /\ Consistent(plan)
          /\ \A h \in 1..N : \A a \in 1..N :
               h # a => TimesInPlan(plan, h, a) <= TimesInPerm(N, Prefix, h, a)
Done == k = L + 1
DoneAgrees == Done => plan = GamePlanOf(DaysC, N, x)
\* a placed game is never moved or removed later
Monotone == [][\A d \in 1..DaysC : \A t \in 1..N : plan[d][t] # 0 => plan'[d][t] = plan[d][t]]_vars
\* a game is dropped only if no day is free for both teams
DropOnlyIfFull == [][k <= L =>
   LET ha == GameOf(N, x[k]) IN
     (plan' = plan) => (FreeDays(plan, ha[1], ha[2]) = {})]_vars
=============================================================================
