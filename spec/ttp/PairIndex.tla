------------------------------ MODULE PairIndex ------------------------------
(***************************************************************************)
(* Index arithmetic of the TTP error counter (C13): the separation table   *)
(* has n(n-1)/2 slots, slot of the pairing {a, b} (0-based, a > b) is      *)
(* a(a-1)/2 + b.  A game plan may contain ANY value -n..n in any cell, in  *)
(* particular a team facing itself.  TLC checks that every index the       *)
(* counter forms for a cell stays inside the table and that distinct       *)
(* pairings never share a slot.  SkipSelf models the guard "a team that    *)
(* meets itself has no pairing" (without it the index for the last team is *)
(* one past the end).                                                      *)
(***************************************************************************)
EXTENDS Naturals, Integers, FiniteSets, TLC
CONSTANTS MaxN, SkipSelf
VARIABLES n, t1, v
vars == <<n, t1, v>>
Init == /\ n \in {k \in 2..MaxN : k % 2 = 0} /\ t1 \in 0..(n - 1) /\ v \in ((-n)..n) \ {0}
Spec == Init /\ [][UNCHANGED vars]_vars
Abs(x) == IF x < 0 THEN -x ELSE x
T2 == Abs(v) - 1
Size == (n * (n - 1)) \div 2
Slot(a, b) == IF a > b THEN (a * (a - 1)) \div 2 + b ELSE (b * (b - 1)) \div 2 + a
Accessed == ~(SkipSelf /\ t1 = T2)
InTable == Accessed => Slot(t1, T2) \in 0..(Size - 1)
\* different pairings use different slots (so an access never reads another pairing's data)
Injective == \A a \in 0..(n - 1) : \A b \in 0..(a - 1) : \A c \in 0..(n - 1) : \A e \in 0..(c - 1) :
               (Slot(a, b) = Slot(c, e)) => (a = c /\ b = e)
NoAlias == (Accessed /\ t1 # T2) =>
             \A a \in 0..(n - 1) : \A b \in 0..(a - 1) :
               Slot(a, b) = Slot(t1, T2) => {a, b} = {t1, T2}
=============================================================================
