---------------------------- MODULE Trace_RobinX ----------------------------
(***************************************************************************)
(* Recorded loads of driver-written robinX documents (X02).                *)
(* case: [n, doc: <<[tag, a]>>, ok (0/1), got: [rounds, hmin, ...],        *)
(*        matrix_ok, names_ok (0/1: distance matrix / team names as written)]*)
(* A load must be the Load of RobinX.tla as built (the rounds element is   *)
(* ignored) or as designed (it is read): a repaired reader raises no alarm.*)
(***************************************************************************)
EXTENDS TraceIO
VARIABLE tid

R(b) == INSTANCE RobinX WITH ReadsRounds <- b

Judge(c, want) ==
  IF want.ok = 0 THEN (IF c.ok = 0 THEN "ok" ELSE "loads-a-document-it-should-refuse:" \o want.why)
  ELSE IF c.ok = 0 THEN "refuses-a-valid-document"
  ELSE IF \E k \in {"rounds", "hmin", "hmax", "amin", "amax", "smin", "smax"} : c.got[k] # want.r[k]
       THEN "limits-differ:" \o (CHOOSE k \in {"rounds", "hmin", "hmax", "amin", "amax", "smin", "smax"} : c.got[k] # want.r[k])
  ELSE IF c.matrix_ok # 1 THEN "distance-matrix-differs"
  ELSE IF c.names_ok # 1 THEN "team-names-differ"
  ELSE "ok"

Verdict(c) == LET asBuilt == Judge(c, R(FALSE)!Load(c.doc, c.n)) IN
              IF asBuilt = "ok" \/ Judge(c, R(TRUE)!Load(c.doc, c.n)) = "ok" THEN "ok" ELSE asBuilt

Init == tid = 0
Next == /\ tid < NCases /\ tid' = tid + 1
        /\ PrintT(<<"V", Cases[tid'].id, Verdict(Cases[tid'])>>)
Spec == Init /\ [][Next]_tid
=============================================================================
