------------------------------ MODULE Trace_TTP ------------------------------
(***************************************************************************)
(* Validation of recorded executions of the TTP objectives and the game    *)
(* encoding against TTP.tla.  Prop selects the property:                   *)
(*  "C07": [cfg, ub, plans: << [plan, errors] >>, dom: << [plan, foreign, accepted] >> (optional)] *)
(*  "C08": [M, lb, ub, opt, plans: << [plan, length, byes: <<[d,t,length]>>] >>] *)
(*         opt = -1 (unknown) or the published optimum; if given, the plans *)
(*         of the case must be ALL error-free plans (checked feasible here) *)
(*  "C15": [n, rounds, days, bp, decodes: << [x, plan] >>]                 *)
(***************************************************************************)
EXTENDS TTP, TraceIO, BigNat
CONSTANT Prop
VARIABLE tid

RECURSIVE FirstBad(_, _, _)
\* first non-"ok" clause of Clause(i) for i in k..n
FirstBad(f, k, n) == IF k > n THEN "ok" ELSE IF f[k] # "ok" THEN f[k] ELSE FirstBad(f, k + 1, n)

\* ---------------------------------------------------------------- C07
\* The set of violated clauses of one recorded evaluation (empty = fine).  The clauses are
\* independent of each other so that one (possibly known) failure never hides another.
\* The declared bound was derived under the assumption that a streak or separation violation
\* costs at most one error per day, which only holds if the minimum limits are 1.
MinLimitsAboveOne(cfg) == cfg.hmin > 1 \/ cfg.amin > 1 \/ cfg.smin > 1
ErrClauses(cfg, ub, e) ==
  LET plan == e.plan IN
  IF ~WellShaped(plan, cfg) THEN {"driver-bad-plan"}
  ELSE LET feas == FeasibleRR(plan, cfg) IN
    (IF e.errors < 0 THEN {"negative"} ELSE {})
    \cup (IF e.errors > ub
          THEN (IF MinLimitsAboveOne(cfg) THEN {"above-declared-upper-bound:min-limits-above-1"}
                ELSE {"above-declared-upper-bound"})
          ELSE {})
    \cup (IF e.errors = 0 /\ ~feas THEN {"zero-for-infeasible:" \o InfeasibleWhy(plan, cfg)} ELSE {})
    \cup (IF e.errors # 0 /\ feas THEN {"nonzero-for-feasible"} ELSE {})
    \cup (IF Consistent(plan) /\ DocUnambiguous(plan, cfg)
             /\ e.errors # DocErrors(plan, cfg, TRUE) /\ e.errors # DocErrors(plan, cfg, FALSE)
          THEN {"count-not-documented"} ELSE {})
\* The domain of the property is "all plans accepted by the game-plan space": the space must accept exactly the
\* arrays of the instance's shape whose entries lie in -n..n (and that belong to the instance and have its dtype:
\* "foreign" = 1 marks an array that does not).  dom: << [plan, foreign, accepted] >>.
DomClause(cfg, e) ==
  LET inDom == e.foreign = 0 /\ Len(e.plan) > 0 /\ WellShaped(e.plan, cfg) IN
  IF inDom /\ e.accepted = 0 THEN {"space-rejects-plan-of-the-domain"}
  ELSE IF ~inDom /\ e.accepted = 1
       THEN {IF e.foreign = 1 THEN "space-accepts-foreign-array" ELSE "space-accepts-plan-outside-domain"}
  ELSE {}
Dom(c) == IF "dom" \in DOMAIN c THEN c.dom ELSE <<>>
\* the instance must store the limits its constructor was given (cfg = the arguments, cfg.stored = the attributes)
StoredClause(cfg) ==
  IF "stored" \in DOMAIN cfg /\ \E k \in {"n", "rounds", "hmin", "hmax", "amin", "amax", "smin", "smax"} : cfg.stored[k] # cfg[k]
  THEN {"instance-stores-other-limits-than-given"} ELSE {}
VerdictC07(c) == UNION {ErrClauses(c.cfg, c.ub, c.plans[i]) : i \in 1..Len(c.plans)}
                 \cup StoredClause(c.cfg)
                 \cup UNION {DomClause(c.cfg, Dom(c)[i]) : i \in 1..Len(Dom(c))}

\* ---------------------------------------------------------------- C08
LenClause(c, e) ==
  LET plan == e.plan L == PlanLength(plan, c.M) IN
  IF e.length # L THEN "length-not-travel-model"
  ELSE IF e.length < c.lb THEN "below-declared-lower-bound"
  ELSE IF e.length > c.ub THEN "above-declared-upper-bound"
  ELSE LET bad1 == {k \in 1..Len(e.byes) : plan[e.byes[k].d][e.byes[k].t] # 0 /\ e.byes[k].length <= e.length}
           bad2 == {k \in 1..Len(e.byes) : e.byes[k].length # PlanLength(WithBye(plan, e.byes[k].d, e.byes[k].t), c.M)}
       IN IF bad1 # {} THEN "bye-does-not-increase" ELSE IF bad2 # {} THEN "bye-length" ELSE "ok"
\* distances far beyond 32 bits: the travel model is linear in the distances as long as nobody has a day off, so a
\* plan without byes on the matrix scale * M0 must have the length scale * PlanLength(plan, M0) (BigNat)
ScaledClause(c) ==
  IF \E i \in 1..Len(c.plans) : \E d \in 1..Len(c.plans[i].plan) : \E t \in 1..Len(c.plans[i].plan[d]) :
        c.plans[i].plan[d][t] = 0 THEN "driver-bye-in-scaled-case"
  ELSE IF \E i \in 1..Len(c.plans) :
        c.plans[i].blength # BMul(c.bscale, BOfNat(PlanLength(c.plans[i].plan, c.M))) THEN "length-not-travel-model"
  ELSE IF \E i \in 1..Len(c.plans) : ~BLe(c.blb, c.plans[i].blength) THEN "below-declared-lower-bound"
  ELSE IF \E i \in 1..Len(c.plans) : ~BLe(c.plans[i].blength, c.bub) THEN "above-declared-upper-bound"
  ELSE "ok"
VerdictC08(c) ==
  IF "scale" \in DOMAIN c THEN ScaledClause(c) ELSE
  LET cl == FirstBad([i \in 1..Len(c.plans) |-> LenClause(c, c.plans[i])], 1, Len(c.plans)) IN
  IF cl # "ok" THEN cl
  ELSE IF c.opt < 0 THEN "ok"
  ELSE IF \E i \in 1..Len(c.plans) : ~FeasibleRR(c.plans[i].plan, c.cfg) THEN "driver-infeasible-plan-in-optimum-set"
  ELSE IF SetMin({c.plans[i].length : i \in 1..Len(c.plans)}) # c.opt THEN "optimum"
  ELSE "ok"

\* ---------------------------------------------------------------- C15
DecClause(c, e) ==
  IF e.plan # GamePlanOf(c.days, c.n, e.x) THEN
     (IF ~Consistent(e.plan) THEN "decoded-inconsistent"
      ELSE IF ~DecodedOK(e.plan, c.n, e.x) THEN "game-more-often-than-permutation"
      ELSE "not-earliest-free-day")
  ELSE IF ~DecodedOK(e.plan, c.n, e.x) THEN "spec-decoding-not-ok" ELSE "ok"
VerdictC15(c) ==
  LET b == IF Len(c.bp) = 0 THEN "ok" ELSE BlueprintClause(c.n, c.rounds, c.bp) IN
  \* real = 1: the plan was created by the library for an instance with an even number of teams
  IF "real" \in DOMAIN c /\ c.real = 1 /\ c.days # (c.n - 1) * c.rounds THEN "plan-has-wrong-number-of-days"
  \* light = 1 (very many teams): re-deriving the whole decoding is too expensive for TLC; what remains is that the
  \* decoded plan is mutually consistent (a wrapped team id shows there)
  ELSE IF "light" \in DOMAIN c /\ c.light = 1
       THEN (IF \E i \in 1..Len(c.decodes) : ~Consistent(c.decodes[i].plan) THEN "decoded-inconsistent" ELSE "ok")
  ELSE IF b # "ok" THEN "blueprint:" \o b
  ELSE FirstBad([i \in 1..Len(c.decodes) |-> DecClause(c, c.decodes[i])], 1, Len(c.decodes))

Verdict(c) == IF Prop = "C07" THEN VerdictC07(c) ELSE IF Prop = "C08" THEN VerdictC08(c) ELSE VerdictC15(c)

Init == tid = 0
Next == /\ tid < NCases /\ tid' = tid + 1
        /\ PrintT(<<"V", Cases[tid'].id, Verdict(Cases[tid'])>>)
Spec == Init /\ [][Next]_tid
=============================================================================
