--------------------------------- MODULE TTP ---------------------------------
(***************************************************************************)
(* Traveling tournament: game plans, the round-robin feasibility oracle,   *)
(* the documented error count, the travel length model and the game        *)
(* permutation encoding - all written from the statements / documentation. *)
(*                                                                         *)
(* A plan is a sequence of days; plan[d][t] = o > 0: team t plays at home  *)
(* against o; = -o: t plays away at o; = 0: no game (bye).                 *)
(* cfg = [n, rounds, hmin, hmax, amin, amax, smin, smax].                  *)
(***************************************************************************)
EXTENDS Naturals, Integers, Sequences, FiniteSets

Abs(v) == IF v < 0 THEN -v ELSE v
Max2(a, b) == IF a >= b THEN a ELSE b
Min2(a, b) == IF a <= b THEN a ELSE b
SetMax(S) == CHOOSE m \in S : \A o \in S : m >= o
SetMin(S) == CHOOSE m \in S : \A o \in S : m <= o

RECURSIVE SumSeq(_, _)
SumSeq(s, i) == IF i > Len(s) THEN 0 ELSE s[i] + SumSeq(s, i + 1)
RECURSIVE SumSet(_, _)
\* sum of f[x] for x in S
SumSet(f, S) == IF S = {} THEN 0 ELSE LET x == CHOOSE y \in S : TRUE IN f[x] + SumSet(f, S \ {x})

Days(plan) == Len(plan)
Teams(plan) == Len(plan[1])
WellShaped(plan, cfg) ==
  /\ Len(plan) = (cfg.n - 1) * cfg.rounds
  /\ \A d \in 1..Len(plan) : /\ Len(plan[d]) = cfg.n
                             /\ \A t \in 1..cfg.n : plan[d][t] \in (-cfg.n)..cfg.n

\* ------------------------------------------------------------------ feasibility oracle
EveryonePlays(plan) == \A d \in 1..Days(plan) : \A t \in 1..Teams(plan) :
                          plan[d][t] # 0 /\ Abs(plan[d][t]) # t
\* opponents and home/away roles are mutual (a bye constrains nothing)
Consistent(plan) == \A d \in 1..Days(plan) : \A t \in 1..Teams(plan) :
  LET v == plan[d][t] IN
  /\ Abs(v) # t
  /\ (v > 0 => plan[d][v] = -t)
  /\ (v < 0 => plan[d][-v] = t)

HomeGames(plan, i, j) == Cardinality({d \in 1..Days(plan) : plan[d][i] = j})
PairsOK(plan, cfg) == \A i \in 1..cfg.n : \A j \in 1..(i - 1) :
  /\ HomeGames(plan, i, j) + HomeGames(plan, j, i) = cfg.rounds
  /\ Abs(HomeGames(plan, i, j) - HomeGames(plan, j, i)) <= 1

\* kind of the game of team t on day d: 1 home, -1 away, 0 bye
Kind(plan, d, t) == IF plan[d][t] > 0 THEN 1 ELSE IF plan[d][t] < 0 THEN -1 ELSE 0
\* maximal runs of equal kind in column t: set of <<first day, last day, kind>>
Runs(plan, t) ==
  LET D == Days(plan)
      Starts == {d \in 1..D : d = 1 \/ Kind(plan, d - 1, t) # Kind(plan, d, t)}
      EndOf(s) == SetMin({e \in s..D : e = D \/ Kind(plan, e + 1, t) # Kind(plan, s, t)})
  IN {<<s, EndOf(s), Kind(plan, s, t)>> : s \in Starts}
RunLen(r) == r[2] - r[1] + 1
StreaksOK(plan, cfg) == \A t \in 1..cfg.n : \A r \in Runs(plan, t) :
  /\ (r[3] = 1 => RunLen(r) >= cfg.hmin /\ RunLen(r) <= cfg.hmax)
  /\ (r[3] = -1 => RunLen(r) >= cfg.amin /\ RunLen(r) <= cfg.amax)

\* days on which the pair {i, j} meets (as seen from i)
MeetDays(plan, i, j) == {d \in 1..Days(plan) : Abs(plan[d][i]) = j}
\* consecutive meetings: <<d1, d2>> with no meeting in between
ConsecMeet(plan, i, j) ==
  {p \in MeetDays(plan, i, j) \X MeetDays(plan, i, j) :
     p[1] < p[2] /\ \A d \in MeetDays(plan, i, j) : ~(p[1] < d /\ d < p[2])}
SepOK(plan, cfg) == \A i \in 1..cfg.n : \A j \in 1..(i - 1) : \A p \in ConsecMeet(plan, i, j) :
  LET gap == p[2] - p[1] - 1 IN gap >= cfg.smin /\ gap <= cfg.smax

FeasibleRR(plan, cfg) ==
  /\ EveryonePlays(plan) /\ Consistent(plan) /\ PairsOK(plan, cfg)
  /\ StreaksOK(plan, cfg) /\ SepOK(plan, cfg)

\* which clause fails first (for reports)
InfeasibleWhy(plan, cfg) ==
  IF ~EveryonePlays(plan) THEN "bye-or-self" ELSE IF ~Consistent(plan) THEN "inconsistent"
  ELSE IF ~PairsOK(plan, cfg) THEN "pairs" ELSE IF ~StreaksOK(plan, cfg) THEN "streaks"
  ELSE IF ~SepOK(plan, cfg) THEN "separation" ELSE "feasible"

\* ------------------------------------------------------------------ documented error count
\* (for mutually consistent plans)
ByeCount(plan) == Cardinality({p \in (1..Days(plan)) \X (1..Teams(plan)) : plan[p[1]][p[2]] = 0})
\* a run is "final" if it extends to the last day: the documentation does not say whether a
\* too-short streak that is cut off by the end of the season counts
RunErr(plan, cfg, r, countFinal) ==
  LET lo == IF r[3] = 1 THEN cfg.hmin ELSE cfg.amin
      hi == IF r[3] = 1 THEN cfg.hmax ELSE cfg.amax
      L == RunLen(r)
      final == r[2] = Days(plan)
  IN IF r[3] = 0 THEN 0
     ELSE (IF L > hi THEN L - hi ELSE 0)
          + (IF L < lo /\ (countFinal \/ ~final) THEN lo - L ELSE 0)
StreakErrs(plan, cfg, countFinal) ==
  SumSet([p \in UNION {{<<t, r>> : r \in Runs(plan, t)} : t \in 1..cfg.n} |->
            RunErr(plan, cfg, p[2], countFinal)],
         UNION {{<<t, r>> : r \in Runs(plan, t)} : t \in 1..cfg.n})
SepErr(cfg, p) == LET gap == p[2] - p[1] - 1 IN
  IF gap < cfg.smin THEN cfg.smin - gap ELSE IF gap > cfg.smax THEN gap - cfg.smax ELSE 0
PairSet(cfg) == {q \in (1..cfg.n) \X (1..cfg.n) : q[2] < q[1]}
SepErrs(plan, cfg) ==
  SumSet([q \in PairSet(cfg) |->
            SumSet([p \in ConsecMeet(plan, q[1], q[2]) |-> SepErr(cfg, p)],
                   ConsecMeet(plan, q[1], q[2]))], PairSet(cfg))
PairErrs(plan, cfg) ==
  SumSet([q \in PairSet(cfg) |->
            LET a == HomeGames(plan, q[1], q[2]) b == HomeGames(plan, q[2], q[1]) IN
            Abs(a + b - cfg.rounds) + (IF Abs(a - b) > 1 THEN Abs(a - b) - 1 ELSE 0)],
         PairSet(cfg))
DocErrors(plan, cfg, countFinal) ==
  ByeCount(plan) + StreakErrs(plan, cfg, countFinal) + SepErrs(plan, cfg) + PairErrs(plan, cfg)

\* the documentation is unambiguous for a consistent plan if no too-short streak is cut off by
\* the season's end and no bye lies between two consecutive meetings of a pair ("games against
\* other teams" = days then)
HasShortFinal(plan, cfg) == \E t \in 1..cfg.n : \E r \in Runs(plan, t) :
  /\ r[2] = Days(plan) /\ r[3] # 0
  /\ RunLen(r) < (IF r[3] = 1 THEN cfg.hmin ELSE cfg.amin)
ByeBetweenMeetings(plan, cfg) == \E q \in PairSet(cfg) : \E p \in ConsecMeet(plan, q[1], q[2]) :
  \E d \in (p[1] + 1)..(p[2] - 1) : plan[d][q[1]] = 0 \/ plan[d][q[2]] = 0
DocUnambiguous(plan, cfg) == ~ByeBetweenMeetings(plan, cfg)
ErrorsUpperBound(cfg) == (4 * ((cfg.n - 1) * cfg.rounds) - 1) * cfg.n - 1

\* ------------------------------------------------------------------ travel length
\* M: distance matrix as a sequence of rows (1-based team/city indices)
MatMax(M) == SetMax(UNION {{M[i][j] : j \in 1..Len(M)} : i \in 1..Len(M)})
ByePenalty(M) == 2 * MatMax(M) + 1
\* location of team t after day d (0 days: at home); byes keep the location
RECURSIVE Loc(_, _, _)
Loc(plan, t, d) ==
  IF d = 0 THEN t
  ELSE LET v == plan[d][t] IN
       IF v < 0 THEN -v ELSE IF v > 0 THEN t ELSE Loc(plan, t, d - 1)
TeamTravel(plan, M, t) ==
  SumSet([d \in 1..Days(plan) |->
            IF plan[d][t] = 0 THEN ByePenalty(M)
            ELSE M[Loc(plan, t, d - 1)][Loc(plan, t, d)]], 1..Days(plan))
  + M[Loc(plan, t, Days(plan))][t]
PlanLength(plan, M) == SumSet([t \in 1..Teams(plan) |-> TeamTravel(plan, M, t)], 1..Teams(plan))
LengthUpperBound(plan, M) == Teams(plan) * Days(plan) * ByePenalty(M)

WithBye(plan, d, t) == [plan EXCEPT ![d][t] = 0]

\* ------------------------------------------------------------------ game encoding
\* game code g in 0..n(n-1)-1 -> <<home, away>> (1-based)
GameOf(n, g) ==
  LET h == (g \div (n - 1)) % n
      a0 == g % (n - 1)
      a == IF a0 >= h THEN a0 + 1 ELSE a0
  IN <<h + 1, a + 1>>
EmptyPlan(days, n) == [d \in 1..days |-> [t \in 1..n |-> 0]]
FreeDays(plan, h, a) == {d \in 1..Len(plan) : plan[d][h] = 0 /\ plan[d][a] = 0}
PlaceGame(plan, n, g) ==
  LET ha == GameOf(n, g) F == FreeDays(plan, ha[1], ha[2]) IN
  IF F = {} THEN plan
  ELSE LET d == SetMin(F) IN [plan EXCEPT ![d][ha[1]] = ha[2], ![d][ha[2]] = -ha[1]]
RECURSIVE DecodeGames(_, _, _, _)
DecodeGames(plan, n, x, k) ==
  IF k > Len(x) THEN plan ELSE DecodeGames(PlaceGame(plan, n, x[k]), n, x, k + 1)
GamePlanOf(days, n, x) == DecodeGames(EmptyPlan(days, n), n, x, 1)

\* multiplicity of game <<h, a>> in a plan / in a permutation
TimesInPlan(plan, h, a) == Cardinality({d \in 1..Len(plan) : plan[d][h] = a})
TimesInPerm(n, x, h, a) == Cardinality({k \in 1..Len(x) : GameOf(n, x[k]) = <<h, a>>})
DecodedOK(plan, n, x) ==
  /\ Consistent(plan)
  /\ \A h \in 1..n : \A a \in 1..n : h # a => TimesInPlan(plan, h, a) <= TimesInPerm(n, x, h, a)

\* the search space (blueprint) for n teams and r rounds
BpHome(n, bp, t) == Cardinality({k \in 1..Len(bp) : GameOf(n, bp[k])[1] = t})
BpAway(n, bp, t) == Cardinality({k \in 1..Len(bp) : GameOf(n, bp[k])[2] = t})
BlueprintClause(n, r, bp) ==
  IF \E k \in 1..Len(bp) : bp[k] \notin 0..(n * (n - 1) - 1) THEN "game-code-range"
  ELSE IF \E k \in 1..(Len(bp) - 1) : bp[k] > bp[k + 1] THEN "not-sorted"
  ELSE IF \E i \in 1..n : \E j \in 1..(i - 1) :
            TimesInPerm(n, bp, i, j) + TimesInPerm(n, bp, j, i) # r THEN "pair-multiplicity"
  ELSE IF \E i \in 1..n : \E j \in 1..(i - 1) :
            Abs(TimesInPerm(n, bp, i, j) - TimesInPerm(n, bp, j, i)) > 1 THEN "pair-home-away-balance"
  ELSE IF \E t \in 1..n : Abs(BpHome(n, bp, t) - BpAway(n, bp, t)) > 1 THEN "team-home-away-balance"
  ELSE IF SetMax({BpHome(n, bp, t) : t \in 1..n}) - SetMin({BpHome(n, bp, t) : t \in 1..n}) > 1
       THEN "team-home-count-spread"
  ELSE "ok"
=============================================================================
