------------------------------- MODULE RobinX -------------------------------
(***************************************************************************)
(* The robinX reader of the TTP instances (moptipyapps/ttp/instance.py:    *)
(* _from_stream) as a fold over the elements of the document, in document  *)
(* order.  An element is a record [tag, a] with a a function from          *)
(* attribute names to naturals (names and texts are handled by the driver).*)
(* The reader keeps eight optional values and takes the FIRST definition   *)
(* of each; a second definition is an error.  After the document the       *)
(* defaults are filled in.                                                 *)
(*                                                                         *)
(*   CA3 mode1 = H / A, mode2 = GAMES : min -> streak minimum (at least 1),*)
(*                                      max -> streak maximum              *)
(*   SE1                              : min / max -> separation limits     *)
(*   numberRoundRobin                 : the number of rounds               *)
(*                                                                         *)
(* Named deviation (not a listed property, see DESIGN.md 9.10): the code   *)
(* compares the RAW tag with "numberroundrobin"; the documents spell it    *)
(* numberRoundRobin, so the element is ignored and rounds stays at its     *)
(* default 2.  ReadsRounds = FALSE is the reader as built.                 *)
(***************************************************************************)
EXTENDS Naturals, Sequences
CONSTANT ReadsRounds
None == 1000000          \* "not defined" (larger than every admissible value)

Max(a, b) == IF a >= b THEN a ELSE b
Min(a, b) == IF a <= b THEN a ELSE b
Has(e, k) == k \in DOMAIN e.a

S0 == [rounds |-> None, hmin |-> None, hmax |-> None, amin |-> None, amax |-> None, smin |-> None,
       smax |-> None, err |-> "none"]

\* define field f with value v: the first definition wins, a second one is an error
Def(s, f, v) == IF s[f] # None THEN [s EXCEPT !.err = "twice:" \o f] ELSE [s EXCEPT ![f] = v]

Step(s, e) ==
  IF s.err # "none" THEN s
  ELSE IF e.tag = "numberRoundRobin" THEN (IF ReadsRounds THEN Def(s, "rounds", e.a.text) ELSE s)
  ELSE IF e.tag = "CA3" /\ Has(e, "mode1") /\ Has(e, "games") /\ e.a.games = 1 /\ e.a.mode1 \in {1, 2} THEN
       LET lo == IF e.a.mode1 = 1 THEN "hmin" ELSE "amin"
           hi == IF e.a.mode1 = 1 THEN "hmax" ELSE "amax"
           s1 == IF Has(e, "min") THEN Def(s, lo, Max(e.a.min, 1)) ELSE s
       IN IF s1.err # "none" THEN s1 ELSE IF Has(e, "max") THEN Def(s1, hi, e.a.max) ELSE s1
  ELSE IF e.tag = "SE1" THEN
       LET s1 == IF Has(e, "min") THEN Def(s, "smin", e.a.min) ELSE s
       IN IF s1.err # "none" THEN s1 ELSE IF Has(e, "max") THEN Def(s1, "smax", e.a.max) ELSE s1
  ELSE s

RECURSIVE Fold(_, _, _)
Fold(s, doc, i) == IF i > Len(doc) THEN s ELSE Fold(Step(s, doc[i]), doc, i + 1)

\* the defaults, for n teams
Finish(s, n) ==
  LET rounds == IF s.rounds = None THEN 2 ELSE s.rounds
      ll == rounds * n - 1
      hmin == IF s.hmin = None THEN 1 ELSE s.hmin
      amin == IF s.amin = None THEN 1 ELSE s.amin
      smin == IF s.smin = None THEN 1 ELSE s.smin
  IN [rounds |-> rounds, hmin |-> hmin, hmax |-> IF s.hmax = None THEN Min(Max(hmin, 3), ll) ELSE s.hmax,
      amin |-> amin, amax |-> IF s.amax = None THEN Min(Max(amin, 3), ll) ELSE s.amax,
      smin |-> smin, smax |-> IF s.smax = None THEN Min(Max(smin, 1), ll) ELSE s.smax]

\* what the Instance constructor admits (streak and separation ranges within the season)
Admissible(r, n) ==
  LET ll == r.rounds * n - 1 IN
  /\ r.rounds \in 1..100
  /\ r.hmin \in 1..ll /\ r.hmax \in r.hmin..ll
  /\ r.amin \in 1..ll /\ r.amax \in r.amin..ll
  /\ r.smin \in 0..ll /\ r.smax \in r.smin..ll

Load(doc, n) == LET s == Fold(S0, doc, 1) IN
                IF s.err # "none" THEN [ok |-> 0, why |-> s.err]
                ELSE LET r == Finish(s, n) IN
                     IF Admissible(r, n) THEN [ok |-> 1, r |-> r] ELSE [ok |-> 0, why |-> "inadmissible"]
=============================================================================
