-------------------------------- MODULE MC_RR --------------------------------
(***************************************************************************)
(* Model-checking configurations for the round-robin oracle.               *)
(*  SpecAll : every plan of shape days x N with entries in -N..N (N = 2)   *)
(*            under every admissible constraint setting; each state is an  *)
(*            input for the real error counter.                            *)
(*  SpecRR  : plans for N = 4 built day by day from the day-wise           *)
(*            consistent choices (3 pairings x 4 orientations = 12 per     *)
(*            day); complete plans that are feasible under Cfg are printed *)
(*            (tag "F") - the complete feasible set of the instance.       *)
(* TLC checks on both that the oracle (FeasibleRR) and the documented      *)
(* count agree:  consistent plan => (feasible <=> documented count = 0).   *)
(***************************************************************************)
EXTENDS TTP, TLC

CONSTANTS N, Rounds,
          HMin, HMax, AMin, AMax, SMin, SMax   \* the constraint setting used by SpecRR

VARIABLES plan, cfg
vars == <<plan, cfg>>

DaysN == (N - 1) * Rounds
LL == Rounds * N - 1
Cfgs == {[n |-> N, rounds |-> Rounds, hmin |-> a, hmax |-> b, amin |-> c, amax |-> d,
          smin |-> e, smax |-> f] :
           a \in 1..LL, b \in 1..LL, c \in 1..LL, d \in 1..LL, e \in 0..LL, f \in 0..LL}
ValidCfgs == {k \in Cfgs : k.hmin <= k.hmax /\ k.amin <= k.amax /\ k.smin <= k.smax}

InitAll == /\ cfg \in ValidCfgs
           /\ plan \in [1..DaysN -> [1..N -> (-N)..N]]
SpecAll == InitAll /\ [][UNCHANGED vars]_vars

\* day-wise consistent days for N teams: every team plays, roles mutual
ConsistentDays ==
  {day \in [1..N -> {v \in (-N)..N : v # 0}] :
     \A t \in 1..N : /\ Abs(day[t]) # t
                     /\ (day[t] > 0 => day[day[t]] = -t)
                     /\ (day[t] < 0 => day[-day[t]] = t)}

Cfg == [n |-> N, rounds |-> Rounds, hmin |-> HMin, hmax |-> HMax, amin |-> AMin, amax |-> AMax,
        smin |-> SMin, smax |-> SMax]
InitRR == plan = <<>> /\ cfg = Cfg
NextRR == /\ Len(plan) < DaysN
          /\ \E day \in ConsistentDays : plan' = Append(plan, day)
          /\ UNCHANGED cfg
SpecRR == InitRR /\ [][NextRR]_vars

Complete == Len(plan) = DaysN
\* the oracle and the documented count agree on consistent plans
OracleVsDoc == (Complete /\ Consistent(plan)) =>
                 (FeasibleRR(plan, cfg) <=> DocErrors(plan, cfg, TRUE) = 0)
FeasibleImpliesZero == (Complete /\ FeasibleRR(plan, cfg)) => DocErrors(plan, cfg, FALSE) = 0
\* prints the complete feasible set (evaluated once per distinct state)
EmitFeasible == (Complete /\ FeasibleRR(plan, cfg)) => PrintT(<<"F", plan>>)
\* optional symmetry cut for quick runs: fix the first day (team relabelling and orientation)
FirstDayFixed == Len(plan) >= 1 => plan[1] = <<2, -1, 4, -3>>
=============================================================================
