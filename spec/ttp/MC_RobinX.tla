------------------------------ MODULE MC_RobinX ------------------------------
(* All documents of up to MaxLen constraint elements over a small alphabet: what the reader computes is          *)
(* admissible whenever it loads, does not depend on the order of elements that define different values, and a   *)
(* value defined twice is refused.                                                                               *)
EXTENDS RobinX, FiniteSets, TLC
CONSTANTS MaxLen, N
VARIABLE doc

Attrs == {[x |-> 0, mode1 |-> m, games |-> g, min |-> lo, max |-> hi] : m \in {1, 2}, g \in {0, 1}, lo \in {0, 2}, hi \in {2, 4}}
          \cup {[x |-> 0, mode1 |-> m, games |-> 1, max |-> hi] : m \in {1, 2}, hi \in {1, 3}}
          \cup {[x |-> 0, mode1 |-> m, games |-> 1, min |-> lo] : m \in {1, 2}, lo \in {0, 3}}
Elems == {[tag |-> "CA3", a |-> a] : a \in Attrs}
         \cup {[tag |-> "SE1", a |-> [x |-> 0, min |-> lo, max |-> hi]] : lo \in {0, 1, 5}, hi \in {1, 6}}
         \cup {[tag |-> "SE1", a |-> [x |-> 0, max |-> 2]], [tag |-> "numberRoundRobin", a |-> [x |-> 0, text |-> 1]],
               [tag |-> "numberRoundRobin", a |-> [x |-> 0, text |-> 3]], [tag |-> "Other", a |-> [x |-> 0]]}

Init == doc = <<>>
Next == Len(doc) < MaxLen /\ \E e \in Elems : doc' = Append(doc, e)
Spec == Init /\ [][Next]_doc

Rev(s) == [i \in 1..Len(s) |-> s[Len(s) + 1 - i]]
LoadedIsAdmissible == LET l == Load(doc, N) IN l.ok = 1 => Admissible(l.r, N)
\* unless some value is defined twice (an error in one order is an error in the other), order does not matter
OrderIrrelevant == LET a == Load(doc, N) b == Load(Rev(doc), N) IN
                   (a.ok = 1 \/ b.ok = 1) => (a.ok = b.ok /\ (a.ok = 1 => a.r = b.r))
\* streak minima are at least 1 whatever the document says
MinimaAtLeastOne == LET l == Load(doc, N) IN l.ok = 1 => (l.r.hmin >= 1 /\ l.r.amin >= 1)
=============================================================================
