------------------------------ MODULE PackSearch ------------------------------
(***************************************************************************)
(* Exact optimum of tiny instances by reachability (C03): items are placed *)
(* type by type (ids non-decreasing - the order of rows does not matter    *)
(* for the number of bins), in any orientation that fits, at ANY position  *)
(* without overlap; a new bin may only be the next unused one.  Every      *)
(* feasible packing is, up to row order and bin renaming, a terminal state *)
(* - so the least number of bins over the terminal states of an instance   *)
(* is its optimum with rotation.  The terminal states are the witnesses    *)
(* against which the real lower bounds are checked.                        *)
(***************************************************************************)
EXTENDS BinPack, TLC

CONSTANTS MaxSide, MaxTypes, MaxRep, MaxN

VARIABLES inst, rows, left, nb, pc
vars == <<inst, rows, left, nb, pc>>

Sides == 1..MaxSide
TypesFor(W, H) == {t \in Sides \X Sides \X (1..MaxRep) : FitsSomehow(W, H, t[1], t[2])}
SeqsOf(S, n) == UNION {[1..m -> S] : m \in 1..n}
\* item types in non-decreasing lexicographic order (the multiset is what matters)
Sorted(its) == \A i \in 1..(Len(its) - 1) :
                 \/ its[i][1] < its[i + 1][1]
                 \/ (its[i][1] = its[i + 1][1] /\ its[i][2] <= its[i + 1][2])
Instances ==
  UNION {{[W |-> W, H |-> H, items |-> its] :
            its \in {s \in SeqsOf(TypesFor(W, H), MaxTypes) : Sorted(s)}}
         : <<W, H>> \in Sides \X Sides}

Init == /\ inst \in {in \in Instances : NItems(in) <= MaxN}
        /\ rows = <<>>
        /\ left = [id \in 1..NTypes(inst) |-> inst.items[id][3]]
        /\ nb = 0 /\ pc = "place"

Orientations(id) ==
  {wh \in {<<inst.items[id][1], inst.items[id][2]>>, <<inst.items[id][2], inst.items[id][1]>>} :
     wh[1] <= inst.W /\ wh[2] <= inst.H}

NextId == CHOOSE i \in 1..NTypes(inst) : left[i] > 0 /\ \A j \in 1..(i - 1) : left[j] = 0

PutItem == /\ pc = "place" /\ \E i \in 1..NTypes(inst) : left[i] > 0
           /\ LET id == NextId IN
              \E wh \in Orientations(id) :
              \E b \in 1..(nb + 1) :
              \E xx \in 0..(inst.W - wh[1]) : \E yy \in 0..(inst.H - wh[2]) :
                LET r == <<id, b, xx, yy, xx + wh[1], yy + wh[2]>> IN
                /\ \A i \in 1..Len(rows) : RBin(rows[i]) = b => ~Overlap(rows[i], r)
                /\ rows' = Append(rows, r)
                /\ left' = [left EXCEPT ![id] = @ - 1]
                /\ nb' = IF b > nb THEN b ELSE nb
           /\ UNCHANGED <<inst, pc>>

Finish == /\ pc = "place" /\ \A id \in 1..NTypes(inst) : left[id] = 0
          /\ pc' = "done" /\ UNCHANGED <<inst, rows, left, nb>>

Next == PutItem \/ Finish
Spec == Init /\ [][Next]_vars

Done == pc = "done"
DoneFeasible == Done => Feasible(inst, rows, nb)
\* area argument: a feasible packing never beats the geometric bound
AreaBound == Done => TotalArea(inst) <= nb * inst.W * inst.H
=============================================================================
