--------------------------- MODULE Trace_Validate ---------------------------
(***************************************************************************)
(* Validation of recorded calls of the real packing validator and of the   *)
(* text round trip (C04).  A case is an instance with a list of tests:     *)
(*   [rows, nb, shape_ok, dtype_ok, accepted, rt]                          *)
(* rt = [ok |-> 0/1, rows, nb] is the outcome of from_str(to_str(y)) or    *)
(* the string "none".  The verdict names the first disagreement between    *)
(* the code and the feasibility predicate of BinPack.                      *)
(***************************************************************************)
EXTENDS BinPack, TraceIO
VARIABLE tid

InstOf(c) == [W |-> c.W, H |-> c.H, items |-> c.items]

TestClause(inst, t) ==
  LET structural == t.shape_ok = 1 /\ t.dtype_ok = 1
      cl == IF structural THEN FeasibleClause(inst, t.rows, t.nb) ELSE "structure"
  IN IF t.accepted = 1 /\ cl # "ok" THEN "accepts-infeasible:" \o cl
     ELSE IF t.accepted = 0 /\ cl = "ok" THEN "rejects-feasible"
     ELSE IF t.rt.ok = -1 THEN "ok"
     ELSE \* text round trip: the stored bin count is not part of the text; the parser
          \* takes the largest bin id and must validate
          LET mb == SetMax(BinsOf(t.rows))
              clt == FeasibleClause(inst, t.rows, mb)
          IN IF t.rt.ok = 1 /\ clt # "ok" THEN "from_str-accepts-infeasible:" \o clt
             ELSE IF t.rt.ok = 0 /\ clt = "ok" THEN "from_str-rejects-feasible"
             ELSE IF t.rt.ok = 1 /\ t.rt.rows # t.rows THEN "from_str-not-equal"
             ELSE IF t.rt.ok = 1 /\ t.rt.nb # mb THEN "from_str-n-bins"
             ELSE "ok"

RECURSIVE TestsClause(_, _, _)
TestsClause(inst, ts, i) ==
  IF i > Len(ts) THEN "ok"
  ELSE LET cl == TestClause(inst, ts[i]) IN
       IF cl # "ok" THEN cl ELSE TestsClause(inst, ts, i + 1)

\* texts of the wrong LENGTH: the text of a feasible packing with something appended (a row, a single number, the
\* whole text once more) or cut off does not have n_items * 6 numbers and must be refused by from_str.
\* texts: << [count (numbers in the text), accepted (0/1)] >>  (optional)
TextsClause(inst, c) ==
  IF "texts" \notin DOMAIN c THEN "ok"
  ELSE IF \E k \in 1..Len(c.texts) : c.texts[k].count # 6 * NItems(inst) /\ c.texts[k].accepted = 1
       THEN "from_str-accepts-text-of-wrong-length"
  ELSE "ok"
Verdict(c) ==
  LET inst == InstOf(c) IN
  IF ~ValidInstance(inst) THEN "driver-bad-instance"
  ELSE LET cl == TestsClause(inst, c.tests, 1) IN IF cl # "ok" THEN cl ELSE TextsClause(inst, c)

Init == tid = 0
Next == /\ tid < NCases /\ tid' = tid + 1
        /\ PrintT(<<"V", Cases[tid'].id, Verdict(Cases[tid'])>>)
Spec == Init /\ [][Next]_tid
=============================================================================
