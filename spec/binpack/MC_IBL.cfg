SPECIFICATION Spec
CONSTANTS MaxSide = 3
          MaxTypes = 2
          MaxRep = 2
          MaxN = 3
INVARIANT InputOK
INVARIANT PartialFeasible
INVARIANT FloatingClear
INVARIANT DoneAgrees
INVARIANT StoreOK
INVARIANT BinsLeItems
PROPERTY Progress
