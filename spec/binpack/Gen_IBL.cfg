SPECIFICATION GenSpec
CONSTANTS MaxSide = 3
          MaxTypes = 2
          MaxRep = 2
          MaxN = 3
INVARIANT DoneAgrees
