SPECIFICATION Spec
CONSTANT N = 3
CONSTANT StoresCounter = FALSE
INVARIANT TypeOK
INVARIANT Served
INVARIANT MissesAreNonNames
INVARIANT OverrunOnlyAbove
INVARIANT AboveAlwaysOverruns
INVARIANT CounterSound
PROPERTY CacheMonotone
PROPERTY HitsArePure
