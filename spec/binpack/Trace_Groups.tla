---------------------------- MODULE Trace_Groups ----------------------------
(***************************************************************************)
(* Recorded calls of _make_instance_groups / list_resources_groups (X03).  *)
(* case: [a: <<[num, size]>>, beng: <<num>>, rest: <<name>>  (the shipped   *)
(*        "cl" / "asqas" names, sorted), complete (1: every shipped cl /    *)
(*        asqas name was passed, no unknown name; 0 otherwise),             *)
(*        ok (0/1), got: <<[top, sub, m]>>]                                 *)
(* As built, the class and asqas groups are taken from the shipped list,   *)
(* not from the argument, so an incomplete argument is refused by the      *)
(* final set comparison; a single "a" instance is refused by the quantile  *)
(* computation (named deviations, see DESIGN 9.11).                        *)
(***************************************************************************)
EXTENDS TraceIO, Groups
VARIABLE tid

FirstDiff(g, w) == IF Len(g) # Len(w) THEN "number-of-groups"
                   ELSE LET k == CHOOSE k \in 1..Len(g) : g[k] # w[k] /\ \A j \in 1..(k - 1) : g[j] = w[j] IN
                        IF g[k].top # w[k].top \/ g[k].sub # w[k].sub THEN "group-name:" \o w[k].top \o "/" \o w[k].sub
                        ELSE "members:" \o w[k].top \o "/" \o w[k].sub

Verdict(c) ==
  IF c.complete = 0 THEN (IF c.ok = 0 THEN "ok" ELSE "accepts-a-name-list-its-groups-do-not-cover")
  ELSE IF Len(c.a) = 1 THEN
       (IF c.ok = 0 THEN "ok"   \* as built
        ELSE IF c.got = <<[top |-> "a", sub |-> "", m |-> <<Name("a", c.a[1].num, 0, 0)>>]>>
                        \o BengGroups(c.beng) \o ClassGroups(c.rest) \o AsqasGroups(c.rest) THEN "ok"
        ELSE "single-a-instance-neither-refused-nor-one-group")
  ELSE IF c.ok = 0 THEN "refuses-a-complete-name-list"
  ELSE LET want == MakeGroups(c.a, c.beng, c.rest) IN
       IF c.got = want THEN
            \* the groups are a partition of what was passed
            IF Cardinality(Members(c.got)) # Len(c.a) + Len(c.beng) + Len(c.rest) THEN "groups-are-no-partition" ELSE "ok"
       ELSE "groups-differ:" \o FirstDiff(c.got, want)

Init == tid = 0
Next == /\ tid < NCases /\ tid' = tid + 1
        /\ PrintT(<<"V", Cases[tid'].id, Verdict(Cases[tid'])>>)
Spec == Init /\ [][Next]_tid
=============================================================================
