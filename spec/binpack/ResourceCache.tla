--------------------------- MODULE ResourceCache ---------------------------
(***************************************************************************)
(* The resource loader of the 2-d bin-packing instances                    *)
(* (moptipyapps/binpacking2d/instance.py: Instance.from_resource) as a     *)
(* state machine.  It is the one piece of the library whose behaviour      *)
(* depends on the HISTORY of earlier calls:                                *)
(*                                                                         *)
(*   state kept on the function object                                     *)
(*     cache     the instances built so far (one object per name, for ever)*)
(*     text      the lines of the resource file, kept while not every      *)
(*               instance has been built ("absent" before the first miss   *)
(*               and again after the last instance was built)              *)
(*     total     how many instances were built since the text was (re)read *)
(*                                                                         *)
(*   Request(q)  cached name          -> the cached object, nothing changes*)
(*               otherwise            -> (re)read the text if absent       *)
(*                                       (total := 0), binary search       *)
(*                 found              -> build, cache, total + 1; when     *)
(*                                       total reaches the number of names *)
(*                                       the text and the counter are      *)
(*                                       dropped (StoresCounter = FALSE:   *)
(*                                       as built the counter is never     *)
(*                                       written back, see ResourceStep)   *)
(*                 not found          -> ValueError                        *)
(*                 q above every name -> the search starts with            *)
(*                                       imax = len(text), one too far: the*)
(*                                       code raises IndexError (a named   *)
(*                                       deviation from "not found", see   *)
(*                                       DESIGN.md 9.8; state as for a miss)*)
(*                                                                         *)
(* Names are 1..N (the sorted resource lines); queries are 0..2N+1 scaled  *)
(* so that 2k is the name k and odd numbers / 0 / 2N+1.. fall between.     *)
(***************************************************************************)
EXTENDS ResourceStep, Sequences, FiniteSets, TLC    \* ResourceStep: CONSTANTS N, StoresCounter; Search, Step
VARIABLES cache,   \* set of names (1..N) whose instance object exists
          text,    \* TRUE iff the text lines are held
          total,   \* counter, meaningful iff text
          last,    \* [q, out] of the last request; out in {"hit","built","notfound","overrun"}
          clean    \* history: TRUE while only names have been requested
vars == <<cache, text, total, last, clean>>

Queries == 0..(2 * N + 2)

Init == cache = {} /\ text = FALSE /\ total = 0 /\ last = [q |-> 0, out |-> "none"] /\ clean = TRUE

Request(q) ==
  LET s2 == Step([cache |-> cache, text |-> text, total |-> total], q) IN
  /\ cache' = s2.cache /\ text' = s2.text /\ total' = s2.total
  /\ last' = [q |-> q, out |-> s2.out]
  /\ clean' = (clean /\ IsName(q))
Next == \E q \in Queries : Request(q)
Spec == Init /\ [][Next]_vars

-----------------------------------------------------------------------------
TypeOK == cache \subseteq 1..N /\ text \in BOOLEAN /\ total \in 0..N

\* what a user relies on, for every history of calls
\* (1) a name of the resource is always served (built once, then the same object)
Served == last.out \in {"hit", "built"} <=> (last.out # "none" /\ IsName(last.q))
\* (2) the search finds exactly the names: a miss is reported for every non-name ...
MissesAreNonNames == last.out \in {"notfound", "overrun"} => ~IsName(last.q)
\* ... and the one-too-far start only matters above the last name
OverrunOnlyAbove == last.out = "overrun" => last.q > 2 * N
AboveAlwaysOverruns == (last.out # "none" /\ last.q > 2 * N) => last.out = "overrun"
\* (3) the counter never exceeds what is cached, and the text is dropped only when everything is cached
CounterSound == text => total <= Cardinality(cache) /\ total < N
\* (4) an object, once built, stays cached (action property)
CacheMonotone == [][cache \subseteq cache']_vars
\* (5) a hit changes nothing
HitsArePure == [][last'.out = "hit" => UNCHANGED <<cache, text, total>>]_vars
\* Not a theorem (kept as documentation, TLC finds the counterexample: build all, then ask for a non-name):
\* once every instance is cached the text is never held again.
TextGoneForGood == Cardinality(cache) = N => ~text
\* With the counter written back the text is gone once everything is built, as long as only names were requested
\* (holds iff StoresCounter or N = 1; as built it is refuted for N >= 2 - the text simply stays in memory):
DroppedWhenComplete == (clean /\ Cardinality(cache) = N) => ~text
=============================================================================
