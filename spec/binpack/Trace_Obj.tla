------------------------------ MODULE Trace_Obj ------------------------------
(***************************************************************************)
(* Validation of recorded objective evaluations (C02).  A case is a        *)
(* history on ONE set of seven objective objects:                          *)
(*  [id, W, H, items, lbs: 7 BigNat, ubs: 7 BigNat,                        *)
(*   packs: << [rows, nb, vals: 7 BigNat, tbc: 7 ints] ... >>]             *)
(* Every packing must first be feasible by the specification's own         *)
(* predicate (otherwise the driver, not the code, is wrong).               *)
(***************************************************************************)
EXTENDS PackObjectives, TraceIO
VARIABLE tid

InstOf(c) == [W |-> c.W, H |-> c.H, items |-> c.items]

PackClause(inst, c, p) ==
  IF ~Feasible(inst, p.rows, p.nb) THEN "driver-infeasible-packing"
  ELSE LET k == NBins(p.rows)
           bad == {o \in 1..7 : p.vals[o] # ObjValue(inst, p.rows, o)}
           badlb == {o \in 1..7 : ~BLe(c.lbs[o], p.vals[o])}
           badub == {o \in 1..7 : ~BLe(p.vals[o], c.ubs[o])}
           badtb == {o \in 1..7 : p.tbc[o] # k}
       IN IF bad # {} THEN "value:" \o ObjNames[SetMin(bad)]
          ELSE IF badlb # {} THEN "below-declared-lower-bound:" \o ObjNames[SetMin(badlb)]
          ELSE IF badub # {} THEN "above-declared-upper-bound:" \o ObjNames[SetMin(badub)]
          ELSE IF badtb # {} THEN "to-bin-count:" \o ObjNames[SetMin(badtb)]
          \* the record the library derives for the packing (packing_result.from_packing_and_end_result): the
          \* same seven values and the same declared bounds (optional fields rvals, rlbs, rubs; <<>> = rejected)
          ELSE IF "rvals" \in DOMAIN p /\ p.rvals = <<>> THEN "result-record-rejects-feasible-packing"
          ELSE IF "rvals" \in DOMAIN p /\ p.rvals # p.vals THEN "result-record-values-differ"
          ELSE IF "rvals" \in DOMAIN p /\ (p.rlbs # c.lbs \/ p.rubs # c.ubs) THEN "result-record-bounds-differ"
          ELSE "ok"

\* fewer bins => strictly smaller value, for every objective, over all pairs of the case
DomClause(c) ==
  LET P == 1..Len(c.packs)
      bad == {o \in 1..7 : \E a \in P : \E b \in P :
                c.packs[a].nb < c.packs[b].nb /\ ~BLt(c.packs[a].vals[o], c.packs[b].vals[o])}
  IN IF bad # {} THEN "dominance:" \o ObjNames[SetMin(bad)] ELSE "ok"

RECURSIVE PacksClause(_, _, _)
PacksClause(inst, c, i) ==
  IF i > Len(c.packs) THEN "ok"
  ELSE LET cl == PackClause(inst, c, c.packs[i]) IN
       IF cl # "ok" THEN cl ELSE PacksClause(inst, c, i + 1)

Verdict(c) ==
  LET inst == InstOf(c) IN
  IF ~ValidInstance(inst) THEN "driver-bad-instance"
  ELSE LET cl == PacksClause(inst, c, 1) IN
       IF cl # "ok" THEN cl ELSE DomClause(c)

Init == tid = 0
Next == /\ tid < NCases /\ tid' = tid + 1
        /\ PrintT(<<"V", Cases[tid'].id, Verdict(Cases[tid'])>>)
Spec == Init /\ [][Next]_tid
=============================================================================
