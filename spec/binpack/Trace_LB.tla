------------------------------- MODULE Trace_LB -------------------------------
(***************************************************************************)
(* Lower bounds on the number of bins (C03).  A case is an instance, the   *)
(* lower bounds the code reports through its three observables, and a list *)
(* of witness packings.  TLC first establishes that each witness is        *)
(* feasible (rotation allowed) and then demands                            *)
(*      ceil(total item area / bin area)  <=  lb  <=  bins(witness).       *)
(* Only these inequalities are demanded - not a particular bounding        *)
(* procedure.                                                              *)
(***************************************************************************)
EXTENDS PackObjectives, TraceIO
VARIABLE tid

InstOf(c) == [W |-> c.W, H |-> c.H, items |-> c.items]

LbNames == <<"Instance.lower_bound_bins", "BinCount.lower_bound", "InstanceSpace.min_bins">>

\* the three bounds every PackingResult record reports (packing_result._DEFAULT_BOUNDS); the DAMV column on its
\* own is only required to be a lower bound, the other two also dominate the area bound
RNames == <<"PackingResult.bins.lowerBound", "PackingResult.bins.lowerBound.geometric",
            "PackingResult.bins.lowerBound.damv">>
RLbs(c) == IF "rlbs" \in DOMAIN c THEN c.rlbs ELSE <<>>
\* ... and the same three bounds as they stand in the record derived for the first witness packing
\* (from_packing_and_end_result), which may come from something remembered between calls
PNames == <<"PackingResult(record).bins.lowerBound", "PackingResult(record).bins.lowerBound.geometric",
            "PackingResult(record).bins.lowerBound.damv">>
PLbs(c) == IF "plbs" \in DOMAIN c THEN c.plbs ELSE <<>>

RECURSIVE WitClause(_, _, _, _)
WitClause(inst, c, ws, i) ==
  IF i > Len(ws) THEN "ok"
  ELSE IF ~Feasible(inst, ws[i].rows, ws[i].nb) THEN "driver-infeasible-witness"
  ELSE LET bad == {k \in 1..Len(c.lbs) : c.lbs[k] > ws[i].nb}
           rbad == {k \in 1..Len(RLbs(c)) : RLbs(c)[k] > ws[i].nb}
           pbad == {k \in 1..Len(PLbs(c)) : PLbs(c)[k] > ws[i].nb} IN
       IF bad # {} THEN "bound-exceeds-feasible-packing:" \o LbNames[SetMin(bad)]
       ELSE IF rbad # {} THEN "bound-exceeds-feasible-packing:" \o RNames[SetMin(rbad)]
       ELSE IF pbad # {} THEN "bound-exceeds-feasible-packing:" \o PNames[SetMin(pbad)]
       ELSE WitClause(inst, c, ws, i + 1)

Verdict(c) ==
  LET inst == InstOf(c) IN
  IF ~ValidInstance(inst) THEN "driver-bad-instance"
  ELSE LET geo == GeoLB(inst)
           \* min_bins is min(lb, n_items): never below the area bound either, since geo <= n_items
           low == {k \in 1..Len(c.lbs) : c.lbs[k] < geo}
           rlow == {k \in (1..Len(RLbs(c))) \cap {1, 2} : RLbs(c)[k] < geo}
           plow == {k \in (1..Len(PLbs(c))) \cap {1, 2} : PLbs(c)[k] < geo}
       IN IF low # {} THEN "bound-below-area-bound:" \o LbNames[SetMin(low)]
          ELSE IF rlow # {} THEN "bound-below-area-bound:" \o RNames[SetMin(rlow)]
          ELSE IF plow # {} THEN "bound-below-area-bound:" \o PNames[SetMin(plow)]
          ELSE WitClause(inst, c, c.wit, 1)

Init == tid = 0
Next == /\ tid < NCases /\ tid' = tid + 1
        /\ PrintT(<<"V", Cases[tid'].id, Verdict(Cases[tid'])>>)
Spec == Init /\ [][Next]_tid
=============================================================================
