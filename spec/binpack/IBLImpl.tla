------------------------------- MODULE IBLImpl -------------------------------
(***************************************************************************)
(* The two decoders in the shape of the implementation: ONE destination    *)
(* array y and (encoding 2) the index windows bin_starts / bin_ends, all   *)
(* of which hold ARBITRARY old contents when a decoding starts (the arrays *)
(* are reused between calls and never cleared).  Rows are addressed by     *)
(* index exactly as the code does:                                         *)
(*   encoding 1: collision tests look at rows  bin_start .. i-1            *)
(*   encoding 2: at rows bin_starts[b] .. bin_ends[b]-1 whose bin id is b  *)
(* TLC checks that no old content is ever read (every index looked at was  *)
(* written in THIS decoding), that the windows cover all rows of their bin,*)
(* and that the result equals the documented rule `Decode` - i.e. the      *)
(* array-shaped design refines BinPack whatever garbage it starts from     *)
(* (C14: statelessness; C13: every index stays inside 0..n-1).             *)
(***************************************************************************)
EXTENDS BinPack, TLC
CONSTANTS MaxSide, MaxTypes, MaxRep, MaxN,
          Slim     \* TRUE: encoding 2 only and a single choice of old contents (for larger scopes)
VARIABLES inst, x, enc, y, bs, be, nb, i, bstart, readOld
vars == <<inst, x, enc, y, bs, be, nb, i, bstart, readOld>>

Sides == 1..MaxSide
TypesFor(W, H) == {t \in Sides \X Sides \X (1..MaxRep) : FitsSomehow(W, H, t[1], t[2])}
SeqsOf(S, n) == UNION {[1..m -> S] : m \in 1..n}
Instances ==
  UNION {{[W |-> W, H |-> H, items |-> its] : its \in SeqsOf(TypesFor(W, H), MaxTypes)}
         : <<W, H>> \in Sides \X Sides}
SignedIds(in) == {v \in (-NTypes(in))..NTypes(in) : v # 0}
PermsOf(in) == {s \in [1..NItems(in) -> SignedIds(in)] : ValidPerm(in, s)}

\* old contents: a row that looks like a real item at the origin of bin 1 / of bin 2, or zeros
OldRows == {<<1, 1, 0, 0, 1, 1>>, <<1, 2, 0, 0, 1, 1>>, <<0, 0, 0, 0, 0, 0>>}
Init == /\ inst \in {in \in Instances : NItems(in) <= MaxN}
        /\ x \in PermsOf(inst) /\ enc \in (IF Slim THEN {2} ELSE {1, 2})
        /\ \E r \in (IF Slim THEN {<<1, 1, 0, 0, 1, 1>>} ELSE OldRows) : y = [k \in 1..NItems(inst) |-> r]
        /\ \E a \in (IF Slim THEN {0} ELSE {0, NItems(inst)}) : bs = [k \in 1..NItems(inst) |-> a]
        /\ \E a \in (IF Slim THEN {NItems(inst)} ELSE {0, NItems(inst)}) : be = [k \in 1..NItems(inst) |-> a]
        /\ nb = 1 /\ i = 1 /\ bstart = 0 /\ readOld = FALSE

n == NItems(inst)
\* rows the collision tests of bin b look at (1-based indices), as the code computes them
\* (encoding 2 writes bin_starts[0] = bin_ends[0] = 0 before the loop: modelled by FirstWindow)
WinLo(b) == IF enc = 1 THEN bstart + 1 ELSE (IF b = 1 /\ i = 1 THEN 1 ELSE bs[b] + 1)
WinHi(b) == IF enc = 1 THEN i - 1 ELSE (IF b = 1 /\ i = 1 THEN 0 ELSE be[b])
Window(b) == WinLo(b)..WinHi(b)
Seen(b) == IF enc = 1 THEN {y[k] : k \in Window(b)} ELSE {y[k] : k \in {j \in Window(b) : y[j][2] = b}}

RECURSIVE FirstFit(_, _)
\* <<bin, row>> of the first bin b >= from in which the item fits, or <<0, ..>>
FirstFit(sid, from) ==
  IF from > nb THEN <<0, <<>>>>
  ELSE LET c == Drop(Lifted(inst, sid, from), Seen(from))
       IN IF InBin(inst, c) THEN <<from, c>> ELSE FirstFit(sid, from + 1)

PlaceItem ==
  /\ i <= n
  /\ LET sid == x[i]
         ff == IF enc = 1 THEN (LET c == Drop(Lifted(inst, sid, nb), Seen(nb)) IN
                                IF InBin(inst, c) THEN <<nb, c>> ELSE <<0, <<>>>>)
               ELSE FirstFit(sid, 1)
         tried == IF enc = 1 THEN {nb} ELSE (IF ff[1] = 0 THEN 1..nb ELSE 1..ff[1])
     IN /\ readOld' = (readOld \/ \E b \in tried : \E k \in Window(b) : k >= i \/ k < 1)
        /\ IF ff[1] # 0
           THEN /\ y' = [y EXCEPT ![i] = ff[2]]
                /\ be' = IF enc = 2 THEN [be EXCEPT ![ff[1]] = i] ELSE be
                /\ bs' = IF enc = 2 /\ i = 1 THEN [bs EXCEPT ![1] = 0] ELSE bs
                /\ UNCHANGED <<nb, bstart>>
           ELSE /\ y' = [y EXCEPT ![i] = AtOrigin(inst, sid, nb + 1)]
                /\ nb' = nb + 1
                /\ bstart' = IF enc = 1 THEN i - 1 ELSE bstart
                /\ bs' = IF enc = 2 THEN [bs EXCEPT ![nb + 1] = i - 1] ELSE bs
                /\ be' = IF enc = 2 THEN [be EXCEPT ![nb + 1] = i] ELSE be
  /\ i' = i + 1 /\ UNCHANGED <<inst, x, enc>>
Spec == Init /\ [][PlaceItem]_vars

Written == [k \in 1..(i - 1) |-> y[k]]
NeverReadsOldContents == ~readOld
\* the window of every open bin covers all rows of that bin written so far (and only written rows)
WindowsCover == (i > 1) => \A b \in (IF enc = 1 THEN {nb} ELSE 1..nb) :
   /\ Window(b) \subseteq 1..(i - 1)
   /\ {k \in 1..(i - 1) : y[k][2] = b} \subseteq Window(b)
IndicesInRange == /\ nb \in 1..n /\ (enc = 2 => \A b \in 1..nb : (i > 1) => bs[b] \in 0..(n - 1) /\ be[b] \in 1..n)
Refines == (i = n + 1) => <<Written, nb>> = Decode(enc, inst, x)
PrefixRefines == LET d == DecodeFrom(enc, inst, SubSeq(x, 1, i - 1), 1, <<>>, 1) IN <<Written, nb>> = d
=============================================================================
