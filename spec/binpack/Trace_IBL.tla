------------------------------ MODULE Trace_IBL ------------------------------
(***************************************************************************)
(* Validation of recorded decoder executions against BinPack.              *)
(*                                                                         *)
(* A case is one *history*: an instance, and a sequence of decode calls    *)
(* made with ONE encoder object into ONE destination packing (which may    *)
(* have been pre-filled by the driver):                                    *)
(*   [id, W, H, items, dtype, hist: << [enc, x, rows, nb] ... >>]          *)
(* Prop = "C01": every recorded result is physically feasible.             *)
(* Prop = "C14": every recorded result is exactly the packing the          *)
(*   documented rule prescribes for its permutation alone (so nothing      *)
(*   depends on earlier calls or on the old contents of the destination).  *)
(* The verdict is total: the name of the first failed clause, or "ok".     *)
(***************************************************************************)
EXTENDS BinPack, TraceIO
CONSTANT Prop
VARIABLE tid

InstOf(c) == [W |-> c.W, H |-> c.H, items |-> c.items]

StepClause(inst, e) ==
  IF ~ValidPerm(inst, e.x) THEN "driver-bad-permutation"
  ELSE IF Prop = "C01" THEN FeasibleClause(inst, e.rows, e.nb)
  ELSE LET d == Decode(e.enc, inst, e.x) IN
       IF Len(e.rows) # Len(d[1]) THEN "row-count"
       ELSE IF \E i \in 1..Len(d[1]) : e.rows[i] # d[1][i]
            THEN LET i == CHOOSE j \in 1..Len(d[1]) :
                              e.rows[j] # d[1][j] /\ \A m \in 1..(j - 1) : e.rows[m] = d[1][m]
                 IN IF e.rows[i][2] # d[1][i][2] THEN "not-documented-rule:bin"
                    ELSE IF e.rows[i][1] # d[1][i][1] THEN "not-documented-rule:id"
                    ELSE IF (e.rows[i][5] - e.rows[i][3]) # (d[1][i][5] - d[1][i][3])
                         THEN "not-documented-rule:orientation"
                    ELSE "not-documented-rule:position"
       ELSE IF e.nb # d[2] THEN "n-bins"
       ELSE "ok"

RECURSIVE HistClause(_, _, _)
HistClause(inst, hist, i) ==
  IF i > Len(hist) THEN "ok"
  ELSE LET cl == StepClause(inst, hist[i]) IN
       IF cl # "ok" THEN cl ELSE HistClause(inst, hist, i + 1)

\* values the implementation wrote must be representable in the type it chose: a row
\* holding a negative number is the trace of a wrapped-around store
Verdict(c) ==
  LET inst == InstOf(c) IN
  IF ~ValidInstance(inst) THEN "driver-bad-instance"
  ELSE HistClause(inst, c.hist, 1)

Init == tid = 0
Next == /\ tid < NCases /\ tid' = tid + 1
        /\ PrintT(<<"V", Cases[tid'].id, Verdict(Cases[tid'])>>)
Spec == Init /\ [][Next]_tid
=============================================================================
