--------------------------- MODULE PackObjectives ---------------------------
(***************************************************************************)
(* The seven bin-packing objective functions, defined from their           *)
(* documentation (not from the sweeps the code uses):                      *)
(*   value = (bins - 1) * scale + tie-breaker,   1 <= tie-breaker <= scale *)
(* scale = number of items (item-count objectives) or bin area (area and   *)
(* skyline objectives).  All arithmetic is BigNat, so instances whose bin  *)
(* area exceeds 2^31 are within reach.                                     *)
(***************************************************************************)
EXTENDS BinPack, BigNat

Bn(n) == BOfNat(n)
ObjNames == <<"binCount", "binCountAndLastEmpty", "binCountAndEmpty", "binCountAndLastSmall",
              "binCountAndSmall", "binCountAndLastSkyline", "binCountAndLowestSkyline">>

NBins(rows) == SetMax(BinsOf(rows))
IdxIn(rows, b) == {i \in 1..Len(rows) : RBin(rows[i]) = b}
CountIn(rows, b) == Cardinality(IdxIn(rows, b))
AreaOf(r) == BMul(Bn(RR(r) - RL(r)), Bn(RT(r) - RB(r)))

RECURSIVE BSumSet(_, _)
\* sum of f[i] over the finite set S of indices
BSumSet(f, S) == IF S = {} THEN <<>>
                 ELSE LET i == CHOOSE j \in S : TRUE IN BAdd(f[i], BSumSet(f, S \ {i}))

AreaIn(rows, b) == BSumSet([i \in 1..Len(rows) |-> AreaOf(rows[i])], IdxIn(rows, b))

\* Area under the skyline of bin b: integrate, over the x-axis of the bin, the highest
\* top edge of the boxes covering x (0 where nothing is).
Skyline(inst, rows, b) ==
  LET I == IdxIn(rows, b)
      Edges == {0, inst.W} \cup {RL(rows[i]) : i \in I} \cup {RR(rows[i]) : i \in I}
      Starts == Edges \ {inst.W}
      NextEdge(e) == SetMin({f \in Edges : f > e})
      HeightAt(e) == SetMax({0} \cup {RT(rows[i]) : i \in {j \in I : RL(rows[j]) <= e /\ e < RR(rows[j])}})
      Term == [e \in Starts |-> BMul(Bn(NextEdge(e) - e), Bn(HeightAt(e)))]
  IN BSumSet(Term, Starts)

BMinSet(S) == CHOOSE m \in S : \A o \in S : BLe(m, o)

BinArea(inst) == BMul(Bn(inst.W), Bn(inst.H))

\* scale and tie-breaker of objective number o (1..7) for a feasible packing
Scale(inst, o) == IF o = 1 THEN Bn(1) ELSE IF o \in {2, 3} THEN Bn(NItems(inst)) ELSE BinArea(inst)
Tie(inst, rows, o) ==
  LET k == NBins(rows) IN
  CASE o = 1 -> Bn(1)
    [] o = 2 -> Bn(CountIn(rows, k))
    [] o = 3 -> Bn(SetMin({CountIn(rows, b) : b \in 1..k}))
    [] o = 4 -> AreaIn(rows, k)
    [] o = 5 -> BMinSet({AreaIn(rows, b) : b \in 1..k})
    [] o = 6 -> Skyline(inst, rows, k)
    [] o = 7 -> BMinSet({Skyline(inst, rows, b) : b \in 1..k})

ObjValue(inst, rows, o) ==
  BAdd(BMul(Bn(NBins(rows) - 1), Scale(inst, o)), Tie(inst, rows, o))

\* the conversion back to a number of bins: ceil(z / scale)
\* checked as: (k-1)*scale < z <= k*scale  <=>  ToBinCount(z) = k
BinCountOf(inst, z, o, k) ==
  /\ BLt(BMul(Bn(k - 1), Scale(inst, o)), z)
  /\ BLe(z, BMul(Bn(k), Scale(inst, o)))

TieInRange(inst, rows, o) ==
  /\ BLe(Bn(1), Tie(inst, rows, o))
  /\ BLe(Tie(inst, rows, o), Scale(inst, o))

\* ---- the documented bounds, given a valid lower bound lbb on the number of bins
SmallestItemArea(inst) ==
  BMinSet({BMul(Bn(inst.items[i][1]), Bn(inst.items[i][2])) : i \in 1..Len(inst.items)})
BigTotalArea(inst) ==
  BSumSet([i \in 1..Len(inst.items) |->
             BMul(BMul(Bn(inst.items[i][1]), Bn(inst.items[i][2])), Bn(inst.items[i][3]))],
          1..Len(inst.items))
DocLower(inst, o, lbb) ==
  CASE o = 1 -> Bn(lbb)
    [] o \in {2, 3} -> BMax(Bn(NItems(inst)), BAdd(BMul(Bn(lbb - 1), Bn(NItems(inst))), Bn(1)))
    [] OTHER -> IF lbb = 1 THEN BigTotalArea(inst)
                ELSE BAdd(BMul(Bn(lbb - 1), BinArea(inst)), SmallestItemArea(inst))
DocUpper(inst, o) ==
  CASE o = 1 -> Bn(NItems(inst))
    [] o \in {2, 3} -> BMul(Bn(NItems(inst)), Bn(NItems(inst)))
    [] OTHER -> BMul(Bn(NItems(inst)), BinArea(inst))

\* ceil(total item area / bin area) as the least k with total <= k * bin area
RECURSIVE GeoLBFrom(_, _)
GeoLBFrom(inst, k) == IF BLe(BigTotalArea(inst), BMul(Bn(k), BinArea(inst))) THEN k
                      ELSE GeoLBFrom(inst, k + 1)
GeoLB(inst) == GeoLBFrom(inst, 1)
=============================================================================
