--------------------------------- MODULE IBL ---------------------------------
(***************************************************************************)
(* The two improved-bottom-left decoders as a small-step state machine:    *)
(* one action per step the implementation takes for an item (lift it above *)
(* a bin, move down, move left, commit, try the next open bin, open a new  *)
(* bin).  TLC checks on every reachable state that the partial packing is  *)
(* physically feasible, that the machine terminates in the packing given   *)
(* by the functional form `Decode` of the documented rule (BinPack), and    *)
(* that no value ever stored exceeds what the instance's storage rule      *)
(* provides for.                                                           *)
(***************************************************************************)
EXTENDS BinPack, TLC

CONSTANTS MaxSide,    \* bin sides range over 1..MaxSide
          MaxTypes,   \* at most this many item types
          MaxRep,     \* multiplicity of a type is in 1..MaxRep
          MaxN        \* at most this many items in total

VARIABLES inst, x, enc,     \* the input: instance, signed permutation, encoding (1 or 2)
          k,                \* index of the item being placed (1-based)
          rows, nb,         \* rows committed so far, number of bins in use
          cur, cb,          \* floating item and the bin it is tried in
          pc                \* "lift" | "move" | "done"
vars == <<inst, x, enc, k, rows, nb, cur, cb, pc>>

Sides == 1..MaxSide
TypesFor(W, H) == {t \in Sides \X Sides \X (1..MaxRep) : FitsSomehow(W, H, t[1], t[2])}
SeqsOf(S, n) == UNION {[1..m -> S] : m \in 1..n}
Instances ==
  UNION {{[W |-> W, H |-> H, items |-> its] : its \in SeqsOf(TypesFor(W, H), MaxTypes)}
         : <<W, H>> \in Sides \X Sides}
SignedIds(in) == {v \in (-NTypes(in))..NTypes(in) : v # 0}
PermsOf(in) == {s \in [1..NItems(in) -> SignedIds(in)] : ValidPerm(in, s)}

None == <<0, 0, 0, 0, 0, 0>>

Init == /\ inst \in {in \in Instances : NItems(in) <= MaxN}
        /\ x \in PermsOf(inst)
        /\ enc \in {1, 2}
        /\ k = 1 /\ rows = <<>> /\ nb = 1 /\ cur = None /\ cb = 1 /\ pc = "lift"

S == RowsInBin(rows, cb)

Lift == /\ pc = "lift"
        /\ cur' = Lifted(inst, x[k], cb)
        /\ pc' = "move"
        /\ UNCHANGED <<inst, x, enc, k, rows, nb, cb>>

Down == /\ pc = "move" /\ DownDist(cur, S) > 0
        /\ cur' = ShiftDown(cur, DownDist(cur, S))
        /\ UNCHANGED <<inst, x, enc, k, rows, nb, cb, pc>>

\* enabled only if Down is not: downward moves take precedence
Left == /\ pc = "move" /\ DownDist(cur, S) = 0 /\ LeftDist(cur, S) > 0
        /\ cur' = ShiftLeft(cur, LeftDist(cur, S))
        /\ UNCHANGED <<inst, x, enc, k, rows, nb, cb, pc>>

Settled == pc = "move" /\ DownDist(cur, S) = 0 /\ LeftDist(cur, S) = 0

NextItem(newrows, newnb) ==
  /\ rows' = newrows /\ nb' = newnb /\ k' = k + 1 /\ cur' = None
  /\ cb' = IF enc = 1 THEN newnb ELSE 1
  /\ pc' = IF k + 1 > Len(x) THEN "done" ELSE "lift"
  /\ UNCHANGED <<inst, x, enc>>

Commit == Settled /\ InBin(inst, cur) /\ NextItem(Append(rows, cur), nb)

TryNextBin == /\ Settled /\ ~InBin(inst, cur) /\ enc = 2 /\ cb < nb
              /\ cb' = cb + 1 /\ pc' = "lift" /\ cur' = None
              /\ UNCHANGED <<inst, x, enc, k, rows, nb>>

OpenBin == /\ Settled /\ ~InBin(inst, cur) /\ (enc = 1 \/ cb = nb)
           /\ NextItem(Append(rows, AtOrigin(inst, x[k], nb + 1)), nb + 1)

Next == Lift \/ Down \/ Left \/ Commit \/ TryNextBin \/ OpenBin
Spec == Init /\ [][Next]_vars /\ WF_vars(Next)

\* Generator configuration (spec -> code replay): one state per input of the scope,
\* carrying the packing the documented rule prescribes.  Dumped with `-dump`.
GenInit == /\ inst \in {in \in Instances : NItems(in) <= MaxN}
           /\ x \in PermsOf(inst)
           /\ enc \in {1, 2}
           /\ LET d == Decode(enc, inst, x) IN rows = d[1] /\ nb = d[2]
           /\ k = Len(x) + 1 /\ cur = None /\ cb = 1 /\ pc = "done"
GenSpec == GenInit /\ [][UNCHANGED vars]_vars

\* ------------------------------------------------------------------ properties
InputOK == ValidInstance(inst) /\ ValidPerm(inst, x)

\* the committed rows are always a feasible partial packing using bins 1..nb
PartialFeasible ==
  /\ \A i \in 1..Len(rows) : /\ DimsOK(inst, rows[i]) /\ InsideOK(inst, rows[i])
                             /\ RId(rows[i]) = Abs(x[i])
  /\ \A i \in 1..Len(rows) : \A j \in (i + 1)..Len(rows) :
        RBin(rows[i]) = RBin(rows[j]) => ~Overlap(rows[i], rows[j])
  /\ (Len(rows) > 0 => BinsOf(rows) = 1..nb)
  /\ Len(rows) = k - 1

\* the floating item never intersects what is in the bin it is tried in
FloatingClear == pc = "move" => \A o \in S : ~Overlap(o, cur)

\* the machine ends in exactly the functional form of the rule, which is feasible
DoneAgrees == pc = "done" =>
  /\ <<rows, nb>> = Decode(enc, inst, x)
  /\ Feasible(inst, rows, nb)

\* every number the machine ever holds is within what the storage rule allows for
AllStored ==
  {cur[i] : i \in 1..6} \cup {Len(rows), nb, cb} \cup
  UNION {{rows[i][j] : j \in 1..6} : i \in 1..Len(rows)}
StoreOK == \A v \in AllStored : 0 <= v /\ v <= LargestStored(inst)

\* every move strictly decreases <<bottom, left>> lexicographically: termination
Progress == [][(pc = "move" /\ pc' = "move") =>
               (cur'[4] < cur[4] \/ (cur'[4] = cur[4] /\ cur'[3] < cur[3]))]_vars
Terminates == <>(pc = "done")

\* the second encoding never uses more bins than there are items, and never more than
\* encoding 1 would need is NOT claimed (first fit can lose); only the trivial bound:
BinsLeItems == nb <= Max2(1, Len(rows))
=============================================================================
