----------------------------- MODULE MC_Groups -----------------------------
(* All size sequences of up to MaxLen instances over 1..MaxSize, D divisions: the division is an ordered        *)
(* partition by size, the loop of the code computes the documented index, distinct sizes fill all the groups.   *)
EXTENDS Groups
CONSTANTS MaxLen, MaxSize, D
VARIABLE sz

Init == sz = <<>>
Next == Len(sz) < MaxLen /\ \E s \in 1..MaxSize : sz' = Append(sz, s)
Spec == Init /\ [][Next]_sz

Ok == Len(sz) # 1
G == Divide(sz, D)
Flat == UNION {{G[g][q] : q \in 1..Len(G[g])} : g \in 1..Len(G)}

SortIsSorted == LET d == Sort(sz) IN /\ Len(d) = Len(sz)
                                     /\ \A i \in 1..(Len(d) - 1) : d[i] <= d[i + 1]
                                     /\ \A v \in 1..MaxSize : Cardinality({i \in 1..Len(d) : d[i] = v})
                                                              = Cardinality({i \in 1..Len(sz) : sz[i] = v})
CutsMonotone == Len(sz) >= 2 => LET d == Sort(sz) IN
                  /\ \A i \in 1..(D - 2) : CutD(d, D, i) <= CutD(d, D, i + 1)
                  /\ \A i \in 1..(D - 1) : d[1] * D <= CutD(d, D, i) /\ CutD(d, D, i) <= d[Len(d)] * D
LoopIsCount == Len(sz) >= 2 => LET d == Sort(sz) IN \A p \in 1..Len(sz) : FirstIdx(sz[p], d, D) = CountIdx(sz[p], d, D)
Partition == (Ok /\ Len(sz) > 0) =>
               /\ Flat = 1..Len(sz)
               /\ \A g, h \in 1..Len(G) : g # h => {G[g][q] : q \in 1..Len(G[g])} \cap {G[h][q] : q \in 1..Len(G[h])} = {}
               /\ \A g \in 1..Len(G) : G[g] # <<>> /\ \A q \in 1..(Len(G[g]) - 1) : G[g][q] < G[g][q + 1]
               /\ Len(G) <= D
OrderedBySize == (Ok /\ Len(sz) > 0) =>
                   \A g, h \in 1..Len(G) : g < h => \A q \in 1..Len(G[g]), r \in 1..Len(G[h]) : sz[G[g][q]] < sz[G[h][r]]
EqualSizesStayTogether == (Ok /\ Len(sz) > 0) =>
                   \A p, q \in 1..Len(sz) : sz[p] = sz[q] => \E g \in 1..Len(G) : \E a, b \in 1..Len(G[g]) : G[g][a] = p /\ G[g][b] = q
DistinctFillAllGroups == (Len(sz) >= D /\ \A p, q \in 1..Len(sz) : p # q => sz[p] # sz[q]) => Len(G) = D
MaxIsLast == Len(sz) >= 2 => \A p \in 1..Len(sz) : (\A q \in 1..Len(sz) : sz[q] <= sz[p]) => FirstIdx(sz[p], Sort(sz), D) = D - 1
=============================================================================
