------------------------------- MODULE BinPack -------------------------------
(***************************************************************************)
(* Two-dimensional bin packing as moptipyapps defines it: instances,       *)
(* packings, physical feasibility (written from the statement, not from    *)
(* the package's validator) and the documented improved-bottom-left        *)
(* placement rule with its two multi-bin variants.                         *)
(*                                                                         *)
(* An instance is [W, H, items] with items a sequence of <<w, h, rep>>.    *)
(* A packing row is <<id, bin, left, bottom, right, top>> - the column     *)
(* order of the implementation.  A signed permutation x is a sequence of   *)
(* non-zero integers, -id meaning "insert rotated".                        *)
(***************************************************************************)
EXTENDS Naturals, Integers, Sequences, FiniteSets

Min2(a, b) == IF a <= b THEN a ELSE b
Max2(a, b) == IF a >= b THEN a ELSE b
SetMin(S) == CHOOSE m \in S : \A o \in S : m <= o
SetMax(S) == CHOOSE m \in S : \A o \in S : m >= o
Abs(v) == IF v < 0 THEN -v ELSE v

\* ------------------------------------------------------------------ instances
NTypes(inst) == Len(inst.items)
RECURSIVE SumReps(_, _)
SumReps(items, i) == IF i > Len(items) THEN 0 ELSE items[i][3] + SumReps(items, i + 1)
NItems(inst) == SumReps(inst.items, 1)
RECURSIVE SumArea(_, _)
SumArea(items, i) ==
  IF i > Len(items) THEN 0
  ELSE items[i][1] * items[i][2] * items[i][3] + SumArea(items, i + 1)
TotalArea(inst) == SumArea(inst.items, 1)

\* an item must fit the empty bin in at least one orientation
FitsSomehow(W, H, w, h) == (w <= W /\ h <= H) \/ (h <= W /\ w <= H)
ValidInstance(inst) ==
  /\ inst.W >= 1 /\ inst.H >= 1 /\ Len(inst.items) >= 1
  /\ \A i \in 1..Len(inst.items) :
       /\ inst.items[i][1] >= 1 /\ inst.items[i][2] >= 1 /\ inst.items[i][3] >= 1
       /\ FitsSomehow(inst.W, inst.H, inst.items[i][1], inst.items[i][2])

\* x is a signed permutation with repetitions of the item ids of inst
Count(x, id) == Cardinality({i \in 1..Len(x) : Abs(x[i]) = id})
ValidPerm(inst, x) ==
  /\ Len(x) = NItems(inst)
  /\ \A i \in 1..Len(x) : Abs(x[i]) \in 1..NTypes(inst)
  /\ \A id \in 1..NTypes(inst) : Count(x, id) = inst.items[id][3]

\* ------------------------------------------------------------------ feasibility
RId(r) == r[1]
RBin(r) == r[2]
RL(r) == r[3]
RB(r) == r[4]
RR(r) == r[5]
RT(r) == r[6]

Overlap(a, b) == RL(a) < RR(b) /\ RL(b) < RR(a) /\ RB(a) < RT(b) /\ RB(b) < RT(a)

DimsOK(inst, r) ==
  LET w == inst.items[RId(r)][1]
      h == inst.items[RId(r)][2]
      dw == RR(r) - RL(r)
      dh == RT(r) - RB(r)
  IN (dw = w /\ dh = h) \/ (dw = h /\ dh = w)

InsideOK(inst, r) ==
  /\ 0 <= RL(r) /\ RL(r) < RR(r) /\ RR(r) <= inst.W
  /\ 0 <= RB(r) /\ RB(r) < RT(r) /\ RT(r) <= inst.H

BinsOf(rows) == {RBin(rows[i]) : i \in 1..Len(rows)}

\* The name of the first clause of physical feasibility that `rows` (with the reported
\* bin count nb) breaks, or "ok".  The overlap clause only compares rows of one bin.
FeasibleClause(inst, rows, nb) ==
  LET n == Len(rows) IN
  IF n # NItems(inst) THEN "row-count"
  ELSE IF \E i \in 1..n : RId(rows[i]) \notin 1..NTypes(inst) THEN "id-range"
  ELSE IF \E i \in 1..n : ~DimsOK(inst, rows[i]) THEN "dims"
  ELSE IF \E i \in 1..n : ~InsideOK(inst, rows[i]) THEN "inside"
  ELSE IF \E id \in 1..NTypes(inst) :
            Cardinality({i \in 1..n : RId(rows[i]) = id}) # inst.items[id][3]
       THEN "multiplicity"
  ELSE IF BinsOf(rows) # 1..Cardinality(BinsOf(rows)) THEN "bins-not-1..k"
  ELSE IF nb # Cardinality(BinsOf(rows)) THEN "n-bins"
  ELSE IF \E i \in 1..n : \E j \in (i + 1)..n :
            RBin(rows[i]) = RBin(rows[j]) /\ Overlap(rows[i], rows[j])
       THEN "overlap"
  ELSE "ok"

Feasible(inst, rows, nb) == FeasibleClause(inst, rows, nb) = "ok"

\* ------------------------------------------------------------------ the bottom-left rule
\* Orientation: negated ids ask for rotation; an orientation that cannot fit the empty
\* bin is replaced by the other one.
Oriented(inst, sid) ==
  LET id == Abs(sid)
      w0 == IF sid < 0 THEN inst.items[id][2] ELSE inst.items[id][1]
      h0 == IF sid < 0 THEN inst.items[id][1] ELSE inst.items[id][2]
  IN IF w0 > inst.W \/ h0 > inst.H THEN <<h0, w0>> ELSE <<w0, h0>>

\* the item floats above the bin with its right side at the right end of the bin
Lifted(inst, sid, b) ==
  LET wh == Oriented(inst, sid)
  IN <<Abs(sid), b, inst.W - wh[1], inst.H, inst.W, inst.H + wh[2]>>

HOverlap(o, c) == RR(o) > RL(c) /\ RL(o) < RR(c)
VOverlap(o, c) == RT(o) > RB(c) /\ RB(o) < RT(c)

\* S: the set of rows already placed in the bin under consideration
DownDist(c, S) ==
  SetMin({RB(c)} \cup {RB(c) - RT(o) : o \in {p \in S : HOverlap(p, c) /\ RT(p) <= RB(c)}})

LeftDist(c, S) ==
  SetMin({RL(c)}
         \cup {RL(c) - RR(o) : o \in {p \in S : RR(p) <= RL(c) /\ VOverlap(p, c)}}
         \cup {RR(c) - RL(o) : o \in {p \in S : HOverlap(p, c) /\ RT(p) = RB(c)}})

ShiftDown(c, d) == <<c[1], c[2], c[3], c[4] - d, c[5], c[6] - d>>
ShiftLeft(c, d) == <<c[1], c[2], c[3] - d, c[4], c[5] - d, c[6]>>

\* downward moves take precedence; alternate until nothing moves
RECURSIVE Drop(_, _)
Drop(c, S) ==
  LET d == DownDist(c, S) IN
  IF d > 0 THEN Drop(ShiftDown(c, d), S)
  ELSE LET l == LeftDist(c, S) IN
       IF l > 0 THEN Drop(ShiftLeft(c, l), S) ELSE c

InBin(inst, c) == RR(c) <= inst.W /\ RT(c) <= inst.H

RowsInBin(rows, b) == {rows[i] : i \in {j \in 1..Len(rows) : RBin(rows[j]) = b}}

AtOrigin(inst, sid, b) ==
  LET wh == Oriented(inst, sid) IN <<Abs(sid), b, 0, 0, wh[1], wh[2]>>

\* Encoding 1 (next fit): only the current (last) bin is tried.
Place1(inst, rows, nb, sid) ==
  LET c == Drop(Lifted(inst, sid, nb), RowsInBin(rows, nb))
  IN IF InBin(inst, c) THEN <<Append(rows, c), nb>>
     ELSE <<Append(rows, AtOrigin(inst, sid, nb + 1)), nb + 1>>

\* Encoding 2 (first fit): bins 1..nb are tried in order.
RECURSIVE TryBins(_, _, _, _, _)
TryBins(inst, rows, nb, sid, b) ==
  IF b > nb THEN <<Append(rows, AtOrigin(inst, sid, nb + 1)), nb + 1>>
  ELSE LET c == Drop(Lifted(inst, sid, b), RowsInBin(rows, b))
       IN IF InBin(inst, c) THEN <<Append(rows, c), nb>>
          ELSE TryBins(inst, rows, nb, sid, b + 1)
Place2(inst, rows, nb, sid) == TryBins(inst, rows, nb, sid, 1)

Place(enc, inst, rows, nb, sid) ==
  IF enc = 1 THEN Place1(inst, rows, nb, sid) ELSE Place2(inst, rows, nb, sid)

RECURSIVE DecodeFrom(_, _, _, _, _, _)
DecodeFrom(enc, inst, x, k, rows, nb) ==
  IF k > Len(x) THEN <<rows, nb>>
  ELSE LET p == Place(enc, inst, rows, nb, x[k])
       IN DecodeFrom(enc, inst, x, k + 1, p[1], p[2])

\* the documented decoding: <<rows, number of bins>>
Decode(enc, inst, x) == DecodeFrom(enc, inst, x, 1, <<>>, 1)

\* ------------------------------------------------------------------ storage types
\* moptipy's int_range_to_dtype(0, m, force_signed=True), as a ladder of type names
DTypeFor(m) == IF m <= 127 THEN "int8"
               ELSE IF m <= 32767 THEN "int16"
               ELSE IF m <= 2147483647 THEN "int32" ELSE "int64"
MaxDimOf(inst) == Max2(inst.W, inst.H)
MaxSizeOf(inst) ==
  SetMax({Max2(inst.items[i][1], inst.items[i][2]) : i \in 1..Len(inst.items)})
\* the largest value a decoder ever stores: the lifted item's top, a bin id, an index + 1
LargestStored(inst) == Max2(MaxDimOf(inst) + MaxSizeOf(inst), NItems(inst))
=============================================================================
