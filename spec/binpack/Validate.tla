------------------------------- MODULE Validate -------------------------------
(***************************************************************************)
(* Packing validation (C04).  The specification of "validate" is the       *)
(* feasibility predicate of BinPack: a packing is accepted iff it has the  *)
(* right shape and storage type and FeasibleClause = "ok".                 *)
(*                                                                         *)
(* As a state machine for TLC: start from any packing a decoder produces   *)
(* for an instance of the small scope and apply up to MaxC corruptions     *)
(* (overwrite any cell with any value of a small signed domain, or change  *)
(* the stored bin count).  Every reachable state is a test input for the   *)
(* real validator; its expected verdict is SpecClause.                     *)
(***************************************************************************)
EXTENDS BinPack, TLC

CONSTANTS MaxSide, MaxTypes, MaxRep, MaxN, MaxC

VARIABLES inst, rows, nb, nc
vars == <<inst, rows, nb, nc>>

Sides == 1..MaxSide
TypesFor(W, H) == {t \in Sides \X Sides \X (1..MaxRep) : FitsSomehow(W, H, t[1], t[2])}
SeqsOf(S, n) == UNION {[1..m -> S] : m \in 1..n}
Instances ==
  UNION {{[W |-> W, H |-> H, items |-> its] : its \in SeqsOf(TypesFor(W, H), MaxTypes)}
         : <<W, H>> \in Sides \X Sides}
SignedIds(in) == {v \in (-NTypes(in))..NTypes(in) : v # 0}
PermsOf(in) == {s \in [1..NItems(in) -> SignedIds(in)] : ValidPerm(in, s)}

Decoded(in) == {Decode(e, in, x) : e \in {1, 2}, x \in PermsOf(in)}

Init == /\ inst \in {in \in Instances : NItems(in) <= MaxN}
        /\ \E d \in Decoded(inst) : rows = d[1] /\ nb = d[2]
        /\ nc = 0

CellDom == (-1)..(MaxSide + 1)

SetCell == \E i \in 1..Len(rows) : \E j \in 1..6 : \E v \in CellDom :
             /\ rows[i][j] # v
             /\ rows' = [rows EXCEPT ![i][j] = v]
             /\ UNCHANGED <<inst, nb>>
SetNb == \E v \in (-2)..(Len(rows) + 1) :      \* -1 is what a new Packing stores for "not assigned yet"
           /\ v # nb /\ nb' = v /\ UNCHANGED <<inst, rows>>

Next == nc < MaxC /\ nc' = nc + 1 /\ (SetCell \/ SetNb)
Spec == Init /\ [][Next]_vars

SpecClause == FeasibleClause(inst, rows, nb)

\* ---- sanity of the oracle itself
DecodedFeasible == nc = 0 => SpecClause = "ok"
\* non-overlapping rectangles inside nb bins cannot cover more than nb bin areas
AreaArgument == SpecClause = "ok" => TotalArea(inst) <= nb * inst.W * inst.H
\* a feasible packing never has more bins than items
BinsLeItems == SpecClause = "ok" => nb <= NItems(inst)
=============================================================================
