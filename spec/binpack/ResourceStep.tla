---------------------------- MODULE ResourceStep ----------------------------
(* The constant-level part of ResourceCache.tla: one call of Instance.from_resource as a function of the   *)
(* state record [cache, text, total].  Shared by the state machine (ResourceCache) and the trace            *)
(* specification (Trace_Resource), so that both judge by the same definition.                              *)
EXTENDS Integers
CONSTANTS N,            \* number of instances in the resource
          StoresCounter  \* TRUE: the design the comments describe (the incremented counter is written back);
                         \* FALSE: the code as built - `got = got + 1` is compared but never stored, so the
                         \* counter stays 0 and the text is only ever dropped when N = 1 (named deviation)

IsName(q) == q % 2 = 0 /\ q \in 2..(2 * N)
NameOf(q) == q \div 2

\* the binary search exactly as coded: imin, imax over 0-based line indices, imax starts at N (!)
RECURSIVE Search(_, _, _)
Search(q, imin, imax) ==
  IF imin > imax THEN "notfound"
  ELSE LET imid == (imax + imin) \div 2 IN
       IF imid >= N THEN "overrun"                       \* text[imid] does not exist
       ELSE LET prefix == 2 * (imid + 1) IN              \* the name on that line, as a query number
            IF prefix = q THEN "found"
            ELSE IF prefix < q THEN Search(q, imid + 1, imax)
            ELSE Search(q, imin, imid - 1)

\* one call as a function of the state (shared with the trace specification): the new state and the outcome
Step(s, q) ==
  IF IsName(q) /\ NameOf(q) \in s.cache
  THEN [cache |-> s.cache, text |-> s.text, total |-> s.total, out |-> "hit"]
  ELSE LET t0 == IF s.text THEN s.total ELSE 0       \* (re)reading the text resets the counter
           r == Search(q, 0, N) IN
       IF r = "found"
       THEN IF t0 + 1 >= N
            THEN [cache |-> s.cache \cup {NameOf(q)}, text |-> FALSE, total |-> 0, out |-> "built"]
            ELSE [cache |-> s.cache \cup {NameOf(q)}, text |-> TRUE,
                  total |-> IF StoresCounter THEN t0 + 1 ELSE t0, out |-> "built"]
       ELSE [cache |-> s.cache, text |-> TRUE, total |-> t0, out |-> r]
=============================================================================
