------------------------------- MODULE Groups -------------------------------
(***************************************************************************)
(* The grouping of the 2D bin packing benchmark instances                  *)
(* (binpacking2d/instance.py: __divide_based_on_size, _make_instance_groups,*)
(* Instance.list_resources_groups).                                        *)
(*                                                                         *)
(* Instance names are projected to records [kind, x, y, z]:                *)
(*   a07 -> ["a",7,0,0]  beng03 -> ["beng",3,0,0]                          *)
(*   cl03_040_05 -> ["cl",3,40,5]   asqas08 -> ["asqas",8,0,0]             *)
(* A group is [top, sub, m] with m the sequence of its members ("" = None).*)
(*                                                                         *)
(* The "a" instances are divided by the inclusive D-quantiles of their     *)
(* item counts.  All arithmetic is exact: the cut point q_i is kept as     *)
(* q_i * D (a natural number).                                             *)
(***************************************************************************)
EXTENDS Naturals, Sequences, FiniteSets, TLC

RECURSIVE Ins(_, _)
Ins(x, s) == IF s = <<>> THEN <<x>>
             ELSE IF x <= Head(s) THEN <<x>> \o s ELSE <<Head(s)>> \o Ins(x, Tail(s))
RECURSIVE Sort(_)
Sort(s) == IF s = <<>> THEN <<>> ELSE Ins(Head(s), Sort(Tail(s)))

\* D times the i-th cut point (statistics.quantiles, method "inclusive") of the sorted data d, Len(d) >= 2
CutD(d, D, i) == LET m  == Len(d) - 1
                     j  == (i * m) \div D
                     dl == (i * m) % D
                 IN d[j + 1] * (D - dl) + (IF dl = 0 THEN 0 ELSE d[j + 2] * dl)

\* the loop of the code: stop at the first cut point that is larger than the size
FirstIdx(sz, d, D) == IF \E i \in 1..(D - 1) : CutD(d, D, i) > sz * D
                      THEN (CHOOSE i \in 1..(D - 1) : /\ CutD(d, D, i) > sz * D
                                                      /\ \A k \in 1..(i - 1) : CutD(d, D, k) <= sz * D) - 1
                      ELSE D - 1
\* what the documentation means: the number of cut points not above the size
CountIdx(sz, d, D) == Cardinality({i \in 1..(D - 1) : CutD(d, D, i) <= sz * D})

Positions(n) == [p \in 1..n |-> p]

\* the groups of positions (in the order given), empty groups removed; Len(sz) # 1
Divide(sz, D) ==
  IF Len(sz) = 0 THEN << <<>> >>
  ELSE LET d   == Sort(sz)
           idx == [p \in 1..Len(sz) |-> FirstIdx(sz[p], d, D)]
           raw == [g \in 1..D |-> SelectSeq(Positions(Len(sz)), LAMBDA p : idx[p] = g - 1)]
       IN SelectSeq(raw, LAMBDA s : s # <<>>)

SubNames(k) == IF k <= 1 THEN <<"">> ELSE IF k = 2 THEN <<"small", "large">> ELSE <<"small", "med", "large">>

Name(kind, x, y, z) == [kind |-> kind, x |-> x, y |-> y, z |-> z]
NonEmpty(gs) == SelectSeq(gs, LAMBDA g : g.m # <<>>)

\* A: sequence of [num, size] of the "a" instances in name order
AGroups(A) == LET div == Divide([p \in 1..Len(A) |-> A[p].size], 3)
                  sn  == SubNames(Len(div))
              IN NonEmpty([g \in 1..Len(div) |->
                    [top |-> "a", sub |-> sn[g],
                     m |-> [q \in 1..Len(div[g]) |-> Name("a", A[div[g][q]].num, 0, 0)]]])

\* B: sequence of the numbers of the "beng" instances in name order
BengGroups(B) == NonEmpty(<<
     [top |-> "beng", sub |-> "1-8",  m |-> [q \in 1..Len(SelectSeq(B, LAMBDA b : b < 9)) |->
                                              Name("beng", SelectSeq(B, LAMBDA b : b < 9)[q], 0, 0)]],
     [top |-> "beng", sub |-> "9-10", m |-> [q \in 1..Len(SelectSeq(B, LAMBDA b : b >= 9)) |->
                                              Name("beng", SelectSeq(B, LAMBDA b : b >= 9)[q], 0, 0)]] >>)

\* rest: the "cl" and "asqas" names in name order
ClassNs == <<20, 40, 60, 80, 100>>
ClassGroups(rest) == NonEmpty([x \in 1..50 |->
     LET i == ((x - 1) \div 5) + 1
         n == ClassNs[((x - 1) % 5) + 1]
     IN [top |-> "class " \o ToString(i), sub |-> ToString(n),
         m |-> SelectSeq(rest, LAMBDA r : r.kind = "cl" /\ r.x = i /\ r.y = n)]])
AsqasGroups(rest) == NonEmpty(<< [top |-> "asqas", sub |-> "", m |-> SelectSeq(rest, LAMBDA r : r.kind = "asqas")] >>)

MakeGroups(A, B, rest) == AGroups(A) \o BengGroups(B) \o ClassGroups(rest) \o AsqasGroups(rest)

Members(gs) == UNION {{g.m[q] : q \in 1..Len(g.m)} : g \in {gs[k] : k \in 1..Len(gs)}}
=============================================================================
