------------------------------- MODULE PackGen -------------------------------
(***************************************************************************)
(* Every feasible packing of every tiny instance: items are put one at a   *)
(* time, in any order, in any orientation that fits, into any bin at any   *)
(* position where they overlap nothing - not only bottom-left positions,   *)
(* rows in any order, bins possibly sparse.  A run is complete ("done")    *)
(* when all items are placed and the used bins are exactly 1..k.           *)
(* The terminal states carry the seven objective values of PackObjectives; *)
(* TLC checks the tie-breaker range, the documented bound formulas (with   *)
(* the geometric bin bound) and the conversion back to the bin count on    *)
(* all of them, and the dump of the terminal states is replayed into the   *)
(* real objective functions.                                               *)
(***************************************************************************)
EXTENDS PackObjectives, TLC

CONSTANTS MaxSide, MaxTypes, MaxRep, MaxN

VARIABLES inst, rows, left, nb, vals, pc
vars == <<inst, rows, left, nb, vals, pc>>

Sides == 1..MaxSide
TypesFor(W, H) == {t \in Sides \X Sides \X (1..MaxRep) : FitsSomehow(W, H, t[1], t[2])}
SeqsOf(S, n) == UNION {[1..m -> S] : m \in 1..n}
Instances ==
  UNION {{[W |-> W, H |-> H, items |-> its] : its \in SeqsOf(TypesFor(W, H), MaxTypes)}
         : <<W, H>> \in Sides \X Sides}

NoVals == <<>>

Init == /\ inst \in {in \in Instances : NItems(in) <= MaxN}
        /\ rows = <<>>
        /\ left = [id \in 1..NTypes(inst) |-> inst.items[id][3]]
        /\ nb = 0 /\ vals = NoVals /\ pc = "place"

Orientations(id) ==
  {wh \in {<<inst.items[id][1], inst.items[id][2]>>, <<inst.items[id][2], inst.items[id][1]>>} :
     wh[1] <= inst.W /\ wh[2] <= inst.H}

PutItem == /\ pc = "place"
           /\ \E id \in {i \in 1..NTypes(inst) : left[i] > 0} :
            \E wh \in Orientations(id) :
            \E b \in 1..NItems(inst) :
            \E xx \in 0..(inst.W - wh[1]) : \E yy \in 0..(inst.H - wh[2]) :
              LET r == <<id, b, xx, yy, xx + wh[1], yy + wh[2]>> IN
              /\ \A i \in 1..Len(rows) : RBin(rows[i]) = b => ~Overlap(rows[i], r)
              /\ rows' = Append(rows, r)
              /\ left' = [left EXCEPT ![id] = @ - 1]
           /\ UNCHANGED <<inst, nb, vals, pc>>

Finish == /\ pc = "place" /\ \A id \in 1..NTypes(inst) : left[id] = 0
          /\ BinsOf(rows) = 1..Cardinality(BinsOf(rows))
          /\ nb' = Cardinality(BinsOf(rows))
          /\ vals' = [o \in 1..7 |-> ObjValue(inst, rows, o)]
          /\ pc' = "done"
          /\ UNCHANGED <<inst, rows, left>>

Next == PutItem \/ Finish
Spec == Init /\ [][Next]_vars

PartialOK == \A i \in 1..Len(rows) :
               /\ InsideOK(inst, rows[i]) /\ DimsOK(inst, rows[i])
               /\ \A j \in (i + 1)..Len(rows) :
                    RBin(rows[i]) = RBin(rows[j]) => ~Overlap(rows[i], rows[j])
Done == pc = "done"
DoneFeasible == Done => Feasible(inst, rows, nb)
TieRange == Done => \A o \in 1..7 : TieInRange(inst, rows, o)
DocBounds == Done => \A o \in 1..7 :
               /\ BLe(DocLower(inst, o, GeoLB(inst)), vals[o])
               /\ BLe(vals[o], DocUpper(inst, o))
Conversion == Done => \A o \in 1..7 : BinCountOf(inst, vals[o], o, nb)
\* the bin count is never below the geometric bound
GeoValid == Done => GeoLB(inst) <= nb
=============================================================================
