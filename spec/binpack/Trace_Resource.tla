--------------------------- MODULE Trace_Resource ---------------------------
(***************************************************************************)
(* Recorded call histories of Instance.from_resource (on a small stand-in  *)
(* resource file, see vf/props/x01.py) against ResourceCache.tla.          *)
(* case: [n, events: << [q, out, text, total] >>]                          *)
(*   q      the query number (2k = the k-th name, everything else no name)  *)
(*   out    "hit"   the object returned earlier for that name, again       *)
(*          "built" a new object whose compact string is the resource line *)
(*          "notfound" ValueError('... not found'), "overrun" IndexError,  *)
(*          anything else is reported as it is                             *)
(*   text, total   the state kept on the function object after the call    *)
(* Every call of the history is one Request action of the specification;   *)
(* the verdict names the first call that is not.                           *)
(***************************************************************************)
EXTENDS TraceIO, FiniteSets
VARIABLE tid

RC(n, sc) == INSTANCE ResourceStep WITH N <- n, StoresCounter <- sc

RECURSIVE Walk(_, _, _, _, _)
Walk(n, sc, s, ev, i) ==
  IF i > Len(ev) THEN "ok"
  ELSE LET e == ev[i]
           s2 == RC(n, sc)!Step(s, e.q) IN
       \* "notfound" where the model says "overrun" is the documented behaviour (a repaired search): accepted
       IF e.out # s2.out /\ ~(s2.out = "overrun" /\ e.out = "notfound") THEN "outcome-" \o e.out \o "-expected-" \o s2.out
       ELSE IF (e.text = 1) # s2.text THEN "text-kept-or-dropped-wrongly"
       ELSE IF s2.text /\ e.total # s2.total THEN "counter"
       ELSE Walk(n, sc, [cache |-> s2.cache, text |-> s2.text, total |-> s2.total], ev, i + 1)


\* a history must be a behaviour of the machine as built (counter never written back) or of the machine as designed
\* (a repaired counter); the clause reported is that of the as-built machine
Verdict(c) ==
  LET s0 == [cache |-> {}, text |-> FALSE, total |-> 0]
      asBuilt == Walk(c.n, FALSE, s0, c.events, 1) IN
  IF asBuilt = "ok" \/ Walk(c.n, TRUE, s0, c.events, 1) = "ok" THEN "ok" ELSE asBuilt

Init == tid = 0
Next == /\ tid < NCases /\ tid' = tid + 1
        /\ PrintT(<<"V", Cases[tid'].id, Verdict(Cases[tid'])>>)
Spec == Init /\ [][Next]_tid
=============================================================================
