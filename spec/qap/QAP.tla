--------------------------------- MODULE QAP ---------------------------------
(***************************************************************************)
(* Quadratic assignment: objective, rearrangement bounds, QAPLIB text.     *)
(* Matrices are sequences of rows; entries native naturals (MC) or BigNat  *)
(* limbs (recorded cases, prefix B).  p is a permutation of 1..n.          *)
(***************************************************************************)
EXTENDS Naturals, Integers, Sequences, FiniteSets, SequencesExt, BigNat

IsPerm(p, n) == Len(p) = n /\ {p[i] : i \in 1..n} = 1..n
RECURSIVE SumTo(_, _)
SumTo(f, k) == IF k = 0 THEN 0 ELSE f[k] + SumTo(f, k - 1)
RECURSIVE BSumTo(_, _)
BSumTo(f, k) == IF k = 0 THEN <<>> ELSE BAdd(f[k], BSumTo(f, k - 1))

Flat(M) == LET n == Len(M) IN [k \in 1..(n * n) |-> M[((k - 1) \div n) + 1][((k - 1) % n) + 1]]
QapValue(F, D, p) ==
  LET n == Len(p) IN SumTo([k \in 1..(n * n) |->
      LET i == ((k - 1) \div n) + 1 j == ((k - 1) % n) + 1 IN F[i][j] * D[p[i]][p[j]]], n * n)
\* the same sum row by row (recursion depth n instead of n*n: what TLC can afford for hundreds of facilities)
QapValueRows(F, D, p) ==
  LET n == Len(p) IN SumTo([i \in 1..n |-> SumTo([j \in 1..n |-> F[i][j] * D[p[i]][p[j]]], n)], n)
BQapValue(F, D, p) ==
  LET n == Len(p) IN BSumTo([k \in 1..(n * n) |->
      LET i == ((k - 1) \div n) + 1 j == ((k - 1) % n) + 1 IN BMul(F[i][j], D[p[i]][p[j]])], n * n)

\* rearrangement inequality: pair sorted flows with oppositely / equally sorted distances
Asc(s) == SortSeq(s, LAMBDA a, b : a < b)
TrivialLower(F, D) == LET f == Asc(Flat(F)) d == Asc(Flat(D)) m == Len(f) IN
  SumTo([k \in 1..m |-> f[k] * d[m + 1 - k]], m)
TrivialUpper(F, D) == LET f == Asc(Flat(F)) d == Asc(Flat(D)) m == Len(f) IN
  SumTo([k \in 1..m |-> f[k] * d[k]], m)

\* QAPLIB text: the number n, then n*n flows, then n*n distances - as ONE token stream
TextTokens(n, F, D) == <<n>> \o Flat(F) \o Flat(D)
MatFromTokens(toks, n, off) == [i \in 1..n |-> [j \in 1..n |-> toks[off + (i - 1) * n + j]]]
=============================================================================
