------------------------------ MODULE Trace_QAP ------------------------------
(***************************************************************************)
(* Recorded QAP executions (C09).  Case kinds:                             *)
(*  "eval" : [n, F, D, sF, sD, lb, ub, perms: <<[p, val]>>]  BigNat entries; *)
(*           sF/sD are the matrices as stored by the instance; optional     *)
(*           ulb/uub are bounds the caller passed to the constructor        *)
(*  "parse": [n, F, D, ok, ln, lF, lD]  a QAPLIB text for (n, F, D) in some *)
(*           line wrapping was handed to the loader; ok = 1 if it loaded,   *)
(*           and (ln, lF, lD) is what it loaded (native entries)            *)
(*  "bounds": [lb, ub, vals] values reported on a shipped instance vs the   *)
(*           bounds the loaded instance declares                            *)
(***************************************************************************)
EXTENDS QAP, TraceIO
VARIABLE tid

EvalOne(c, e) ==
  IF ~IsPerm(e.p, c.n) THEN {"driver-bad-permutation"}
  ELSE LET v == BQapValue(c.F, c.D, e.p) IN
    (IF e.val # v THEN {"not-flow-distance-sum"} ELSE {})
    \cup (IF ~BLe(c.lb, v) THEN {"true-value-below-declared-lower-bound"} ELSE {})
    \cup (IF ~BLe(v, c.ub) THEN {"true-value-above-declared-upper-bound"} ELSE {})
    \* bounds the driver handed to the constructor must themselves be valid, or the case proves nothing
    \cup (IF "ulb" \in DOMAIN c /\ ~BLe(c.ulb, v) THEN {"driver-bad-user-bound"} ELSE {})
    \cup (IF "uub" \in DOMAIN c /\ ~BLe(v, c.uub) THEN {"driver-bad-user-bound"} ELSE {})
Eval(c) == (IF c.sF # c.F THEN {"stored-flows-differ"} ELSE {})
           \cup (IF c.sD # c.D THEN {"stored-distances-differ"} ELSE {})
           \cup UNION {EvalOne(c, c.perms[k]) : k \in 1..Len(c.perms)}

Parse(c) == IF c.ok # 1 THEN {"loader-rejects-wrapping"}
            ELSE (IF c.ln # c.n THEN {"loaded-size"} ELSE {})
                 \cup (IF c.lF # c.F THEN {"loaded-flows"} ELSE {})
                 \cup (IF c.lD # c.D THEN {"loaded-distances"} ELSE {})

\* many facilities, small entries: everything fits TLC's native integers (the BigNat clauses above are too slow
\* beyond n ~ 40).  [n, F, D, sF, sD, lb, ub, perms: <<[p, val]>>] with native entries
BigN(c) == (IF c.sF # c.F THEN {"stored-flows-differ"} ELSE {})
           \cup (IF c.sD # c.D THEN {"stored-distances-differ"} ELSE {})
           \cup UNION {LET e == c.perms[k] v == QapValueRows(c.F, c.D, e.p) IN
                       IF ~IsPerm(e.p, c.n) THEN {"driver-bad-permutation"}
                       ELSE (IF e.val # v THEN {"not-flow-distance-sum"} ELSE {})
                            \cup (IF c.lb > v THEN {"true-value-below-declared-lower-bound"} ELSE {})
                            \cup (IF v > c.ub THEN {"true-value-above-declared-upper-bound"} ELSE {})
                       : k \in 1..Len(c.perms)}
\* "bounds": [lb, ub, vals: <<BigNat>>, neg]  values the objective reported on a shipped instance of any size
Bounds(c) == (IF c.neg = 1 THEN {"declared-bound-negative"} ELSE {})
             \cup UNION {(IF c.vals[k] = <<-1>> THEN {"reported-value-negative"} ELSE
                          (IF ~BLe(c.lb, c.vals[k]) THEN {"reported-value-below-declared-lower-bound"} ELSE {})
                          \cup (IF ~BLe(c.vals[k], c.ub) THEN {"reported-value-above-declared-upper-bound"} ELSE {}))
                         : k \in 1..Len(c.vals)}
Verdict(c) == IF c.kind = "eval" THEN Eval(c) ELSE IF c.kind = "big" THEN BigN(c)
              ELSE IF c.kind = "bounds" THEN Bounds(c) ELSE Parse(c)
Init == tid = 0
Next == /\ tid < NCases /\ tid' = tid + 1
        /\ PrintT(<<"V", Cases[tid'].id, Verdict(Cases[tid'])>>)
Spec == Init /\ [][Next]_tid
=============================================================================
