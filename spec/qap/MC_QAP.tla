------------------------------- MODULE MC_QAP -------------------------------
(* For all small flow/distance matrices and all permutations the rearrangement bounds enclose *)
(* the objective, BigNat agrees with native arithmetic, and the QAPLIB token stream inverts.  *)
EXTENDS QAP, TLC
CONSTANTS N, MaxV
VARIABLES F, D, p
vars == <<F, D, p>>
Mats == [1..N -> [1..N -> 0..MaxV]]
Perms == {q \in [1..N -> 1..N] : \A a \in 1..N : \E k \in 1..N : q[k] = a}
Init == F \in Mats /\ D \in Mats /\ p \in Perms
Spec == Init /\ [][UNCHANGED vars]_vars
Big(M) == [i \in 1..N |-> [j \in 1..N |-> BOfNat(M[i][j])]]
BoundsEnclose == TrivialLower(F, D) <= QapValue(F, D, p) /\ QapValue(F, D, p) <= TrivialUpper(F, D)
BigAgrees == BQapValue(Big(F), Big(D), p) = BOfNat(QapValue(F, D, p))
TextInverts == LET t == TextTokens(N, F, D) IN
  /\ t[1] = N /\ Len(t) = 1 + 2 * N * N
  /\ MatFromTokens(t, N, 1) = F /\ MatFromTokens(t, N, 1 + N * N) = D
=============================================================================
