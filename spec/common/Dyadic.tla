-------------------------------- MODULE Dyadic --------------------------------
(***************************************************************************)
(* Signed fixed-point numbers with 60 fractional bits, as signed BigNat    *)
(* records [neg, m] (value = +-m / 2^60).  Every IEEE double of moderate   *)
(* magnitude is such a number EXACTLY, so TLC can recompute polynomial     *)
(* expressions over doubles and integers in exact arithmetic and compare   *)
(* with what the floating-point code returned, up to a stated tolerance    *)
(* that covers the code's rounding errors.  The constants are the doubles  *)
(* the code uses; ConstantsOK ties them to their decimal meaning.          *)
(***************************************************************************)
EXTENDS BigNat

P24 == <<7216, 1677>>                              \* 2^24
P40 == <<7776, 1162, 995, 1>>                      \* 2^40
P60 == <<6976, 684, 5046, 2921, 115>>              \* 2^60
DZero == [neg |-> 0, m |-> <<>>]
DInt(n) == IF n >= 0 THEN SCanon([neg |-> 0, m |-> BMul(BOfNat(n), P60)])
           ELSE SCanon([neg |-> 1, m |-> BMul(BOfNat(-n), P60)])
DMulInt(x, k) == IF k >= 0 THEN SCanon([neg |-> x.neg, m |-> BMul(x.m, BOfNat(k))])
                 ELSE SCanon([neg |-> 1 - x.neg, m |-> BMul(x.m, BOfNat(-k))])
DAdd(x, y) == SAdd(x, y)
DSub(x, y) == SAdd(x, SNeg(y))
DAbs(x) == x.m
\* the doubles used by the systems, times 2^60 (exact)
D01 == [neg |-> 0, m |-> <<4704, 6068, 1504, 5292, 11>>]        \* 0.1
DPi == [neg |-> 0, m |-> <<1280, 3856, 7290, 2009, 362>>]       \* math.pi
DPi2 == [neg |-> 0, m |-> <<1440, 7830, 1559, 8879, 1137>>]     \* math.pi * math.pi
ConstantsOK ==
  /\ BLe(BSub(BMul(D01.m, BOfNat(10)), BOfNat(64)), P60) /\ BLe(P60, BAdd(BMul(D01.m, BOfNat(10)), BOfNat(64)))
  /\ BLe(BMul(<<8979, 6535, 1592, 314>>, P60), BMul(DPi.m, <<0, 0, 0, 100>>))     \* 3.14159265358979 <= pi
  /\ BLe(BMul(DPi.m, <<0, 0, 0, 100>>), BMul(<<8980, 6535, 1592, 314>>, P60))     \* pi <= 3.14159265358980
  /\ BLe(BMul(<<8935, 4010, 9604, 986>>, P60), BMul(DPi2.m, <<0, 0, 0, 100>>))    \* 9.86960440108935 <= pi^2
  /\ BLe(BMul(DPi2.m, <<0, 0, 0, 100>>), BMul(<<8936, 4010, 9604, 986>>, P60))
\* |obs - exp| <= 2^-36 + (sum of |terms|) * 2^-40   (all values scaled by 2^60)
DClose(obs, exp, termsum) == BLe(BMul(DAbs(DSub(obs, exp)), P40), BAdd(BMul(P24, P40), termsum))
=============================================================================
