------------------------------- MODULE TraceIO -------------------------------
(* Recorded executions of the implementation: one JSON object per line, path in the  *)
(* environment variable TRACE_FILE.  Every case has a unique string field `id`.      *)
EXTENDS Json, IOUtils, TLC, Sequences, Naturals
Cases == ndJsonDeserialize(IOEnv.TRACE_FILE)
NCases == Len(Cases)
=============================================================================
