------------------------------- MODULE BigNat -------------------------------
(***************************************************************************)
(* Natural numbers beyond TLC's 32-bit integers: little-endian sequences   *)
(* of limbs in base 10^4 (so a product of two limbs plus carries stays far *)
(* below 2^31).  Canonical form: no trailing (most significant) zero limb; *)
(* zero is <<>>.  The Python side converts with a pure radix change.       *)
(***************************************************************************)
EXTENDS Naturals, Integers, Sequences

BBase == 10000

RECURSIVE BNorm(_)
BNorm(a) == IF Len(a) > 0 /\ a[Len(a)] = 0 THEN BNorm(SubSeq(a, 1, Len(a) - 1)) ELSE a

BIsCanon(a) == /\ \A i \in 1..Len(a) : a[i] \in 0..(BBase - 1)
               /\ (Len(a) > 0 => a[Len(a)] # 0)

RECURSIVE BOfNat(_)
BOfNat(n) == IF n = 0 THEN <<>> ELSE <<n % BBase>> \o BOfNat(n \div BBase)

\* only for values known to fit
RECURSIVE BToNat(_)
BToNat(a) == IF Len(a) = 0 THEN 0 ELSE a[1] + BBase * BToNat(Tail(a))

BLimb(a, i) == IF i <= Len(a) THEN a[i] ELSE 0
BMaxLen(a, b) == IF Len(a) > Len(b) THEN Len(a) ELSE Len(b)

RECURSIVE BAddC(_, _, _, _)
BAddC(a, b, i, carry) ==
  IF i > BMaxLen(a, b)
  THEN IF carry = 0 THEN <<>> ELSE <<carry>>
  ELSE LET s == BLimb(a, i) + BLimb(b, i) + carry
       IN <<s % BBase>> \o BAddC(a, b, i + 1, s \div BBase)
BAdd(a, b) == BAddC(a, b, 1, 0)

\* compare: -1, 0, 1
RECURSIVE BCmpFrom(_, _, _)
BCmpFrom(a, b, i) ==
  IF i = 0 THEN 0
  ELSE IF BLimb(a, i) < BLimb(b, i) THEN -1
  ELSE IF BLimb(a, i) > BLimb(b, i) THEN 1
  ELSE BCmpFrom(a, b, i - 1)
BCmp(a, b) == IF Len(a) < Len(b) THEN -1
              ELSE IF Len(a) > Len(b) THEN 1
              ELSE BCmpFrom(a, b, Len(a))
BLe(a, b) == BCmp(a, b) <= 0
BLt(a, b) == BCmp(a, b) < 0
BEq(a, b) == a = b

\* a - b for a >= b
RECURSIVE BSubC(_, _, _, _)
BSubC(a, b, i, borrow) ==
  IF i > Len(a) THEN <<>>
  ELSE LET d == BLimb(a, i) - BLimb(b, i) - borrow
       IN IF d < 0 THEN <<d + BBase>> \o BSubC(a, b, i + 1, 1)
          ELSE <<d>> \o BSubC(a, b, i + 1, 0)
BSub(a, b) == BNorm(BSubC(a, b, 1, 0))

\* multiply by a small natural (< 2^17 so that limb*k + carry < 2^31)
RECURSIVE BMulSmallC(_, _, _, _)
BMulSmallC(a, k, i, carry) ==
  IF i > Len(a)
  THEN IF carry = 0 THEN <<>> ELSE BOfNat(carry)
  ELSE LET p == a[i] * k + carry
       IN <<p % BBase>> \o BMulSmallC(a, k, i + 1, p \div BBase)
BMulSmall(a, k) == IF k = 0 THEN <<>> ELSE BMulSmallC(a, k, 1, 0)

BShift(a, n) == IF Len(a) = 0 THEN <<>> ELSE [i \in 1..n |-> 0] \o a

RECURSIVE BMulAcc(_, _, _)
BMulAcc(a, b, j) ==
  IF j > Len(b) THEN <<>>
  ELSE BAdd(BShift(BMulSmall(a, b[j]), j - 1), BMulAcc(a, b, j + 1))
BMul(a, b) == IF Len(a) = 0 \/ Len(b) = 0 THEN <<>> ELSE BMulAcc(a, b, 1)

RECURSIVE BSumSeq(_)
BSumSeq(s) == IF Len(s) = 0 THEN <<>> ELSE BAdd(s[1], BSumSeq(Tail(s)))

BMax(a, b) == IF BLe(a, b) THEN b ELSE a
BMin(a, b) == IF BLe(a, b) THEN a ELSE b

\* Signed numbers: [neg |-> 0/1, m |-> limbs]
SCanon(x) == IF x.m = <<>> THEN [neg |-> 0, m |-> <<>>] ELSE x
SAdd(x, y) ==
  IF x.neg = y.neg THEN SCanon([neg |-> x.neg, m |-> BAdd(x.m, y.m)])
  ELSE IF BLe(y.m, x.m) THEN SCanon([neg |-> x.neg, m |-> BSub(x.m, y.m)])
  ELSE SCanon([neg |-> y.neg, m |-> BSub(y.m, x.m)])
SNeg(x) == SCanon([neg |-> 1 - x.neg, m |-> x.m])
SOfBig(a) == [neg |-> 0, m |-> a]
SLe(x, y) == LET xx == SCanon(x) yy == SCanon(y) IN
  IF xx.neg = 1 /\ yy.neg = 0 THEN TRUE
  ELSE IF xx.neg = 0 /\ yy.neg = 1 THEN FALSE
  ELSE IF xx.neg = 0 THEN BLe(xx.m, yy.m) ELSE BLe(yy.m, xx.m)
=============================================================================
