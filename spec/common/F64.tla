--------------------------------- MODULE F64 ---------------------------------
(***************************************************************************)
(* IEEE-754 doubles as order-preserving records                            *)
(*   [k: "fin" | "inf" | "nan", s: 0/1 sign bit, a, b, c]                  *)
(* where (a, b, c) are the top 20, middle 21 and low 22 bits of the 63     *)
(* magnitude bits.  For finite values, comparing magnitudes is comparing   *)
(* <<a, b, c>> lexicographically, so every ORDER statement about doubles   *)
(* (bounds, monotonicity, equality) is decided exactly by TLC although it  *)
(* has no floating point arithmetic.  Constants are spelled as bit fields  *)
(* and cross-checked against struct.pack at set-up.                        *)
(***************************************************************************)
EXTENDS Naturals, Integers

FMk(a, b, c) == [k |-> "fin", s |-> 0, a |-> a, b |-> b, c |-> c]
FZero == FMk(0, 0, 0)
FHalf == FMk(523264, 0, 0)
FOne == FMk(523776, 0, 0)
FTwo == FMk(524288, 0, 0)
F1000 == FMk(528872, 0, 0)
F1e10 == FMk(540756, 97408, 0)
F1e100 == FMk(693833, 439446, 1360765)
F1e200 == FMk(863900, 1860447, 1532506)
FPi == FMk(524580, 519505, 273688)

FIsFinite(x) == x.k = "fin"
FMagLt(x, y) == \/ x.a < y.a
                \/ (x.a = y.a /\ x.b < y.b)
                \/ (x.a = y.a /\ x.b = y.b /\ x.c < y.c)
FMagEq(x, y) == x.a = y.a /\ x.b = y.b /\ x.c = y.c
FIsZero(x) == x.k = "fin" /\ x.a = 0 /\ x.b = 0 /\ x.c = 0
\* numeric order on finite values (-0 = +0)
FLt(x, y) == IF FIsZero(x) /\ FIsZero(y) THEN FALSE
             ELSE IF x.s = 1 /\ y.s = 0 THEN TRUE
             ELSE IF x.s = 0 /\ y.s = 1 THEN FALSE
             ELSE IF x.s = 0 THEN FMagLt(x, y) ELSE FMagLt(y, x)
FEq(x, y) == (FIsZero(x) /\ FIsZero(y)) \/ (x.s = y.s /\ FMagEq(x, y))
FLe(x, y) == FLt(x, y) \/ FEq(x, y)
FNeg(x) == [x EXCEPT !.s = 1 - x.s]
FAbs(x) == [x EXCEPT !.s = 0]
\* bit-identical (distinguishes -0 from +0)
FSame(x, y) == x.k = y.k /\ (x.k = "nan" \/ (x.s = y.s /\ FMagEq(x, y)))
FInClosed(x, lo, hi) == FIsFinite(x) /\ FLe(lo, x) /\ FLe(x, hi)
FInOpen(x, lo, hi) == FIsFinite(x) /\ FLt(lo, x) /\ FLt(x, hi)
=============================================================================
