SPECIFICATION Spec
CONSTANT N = 130
INVARIANT OK
