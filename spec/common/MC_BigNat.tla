---------------------------- MODULE MC_BigNat ----------------------------
(* Self-check of BigNat against TLC's native arithmetic on all pairs below a bound. *)
EXTENDS BigNat, TLC
CONSTANT N
VARIABLES a, b
Vals == (0..N) \cup {9999, 10000, 10001, 19999, 20000, 46340, 99999999, 100000000, 100000001}
Init == a \in Vals /\ b \in Vals
Next == UNCHANGED <<a, b>>
Spec == Init /\ [][Next]_<<a, b>>
Small(x) == x < 46341
OK == /\ BIsCanon(BOfNat(a))
      /\ BToNat(BOfNat(a)) = a
      /\ (a + b < 2000000000 => BAdd(BOfNat(a), BOfNat(b)) = BOfNat(a + b))
      /\ (a >= b => BSub(BOfNat(a), BOfNat(b)) = BOfNat(a - b))
      /\ ((Small(a) /\ Small(b)) => BMul(BOfNat(a), BOfNat(b)) = BOfNat(a * b))
      /\ (BCmp(BOfNat(a), BOfNat(b)) = IF a < b THEN -1 ELSE IF a > b THEN 1 ELSE 0)
      /\ (b < 100000 /\ a < 20000 => BMulSmall(BOfNat(a), b) = BOfNat(a * b))
      /\ BIsCanon(BMul(BOfNat(a), BOfNat(b)))
=============================================================================
