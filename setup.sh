#!/bin/bash
# Offline set-up: parse all specifications, self-check the common modules, warm numba caches.
set -e
cd "$(dirname "$0")"
mkdir -p .work evidence replays
/venv/bin/python -m vf.selfcheck
