------------------------------ MODULE Dominance ------------------------------
(***************************************************************************)
(* The arithmetic lemmas behind the dominance and conversion clauses of    *)
(* the packing objectives (C02), for ALL naturals (not only the            *)
(* model-checked scope): a value of the form (k-1)*S + t with 1 <= t <= S  *)
(* orders packings by their bin count k first, and ceil(value / S) = k.    *)
(* Checked by TLAPS (tlapm); the premises 1 <= t <= S are what TLC checks  *)
(* (TieRange) on every feasible packing of the scope.                      *)
(***************************************************************************)
EXTENDS Naturals, Integers, TLAPS

THEOREM Dominance ==
  ASSUME NEW S \in Nat, NEW k \in Nat, NEW kk \in Nat, NEW t \in Nat, NEW tt \in Nat,
         k >= 1, k < kk, 1 <= t, t <= S, 1 <= tt, tt <= S
  PROVE  (k - 1) * S + t < (kk - 1) * S + tt
<1>1. kk - 1 >= k  OBVIOUS
<1>2. (kk - 1) * S >= k * S
  BY <1>1, S \in Nat, k \in Nat, kk - 1 \in Nat
<1>3. k * S = (k - 1) * S + S  OBVIOUS
<1>4. (k - 1) * S + t <= (k - 1) * S + S  OBVIOUS
<1> QED BY <1>2, <1>3, <1>4

THEOREM Conversion ==
  ASSUME NEW S \in Nat, NEW k \in Nat, NEW t \in Nat, k >= 1, 1 <= t, t <= S
  PROVE  (k - 1) * S < (k - 1) * S + t /\ (k - 1) * S + t <= k * S
<1>1. k * S = (k - 1) * S + S  OBVIOUS
<1> QED BY <1>1
=============================================================================
